// C04 verification master WITHOUT error_handler (): the driver prints its own trace (dump_trace), which with
// ArgumentsInTrace / LocalVariablesInTrace turns object values into text through safe_apply_master_ob ("object_name").
// Otherwise as /c04/master.c: permissive; error_handler logs every error as a `#h` line (dropped from the compared
// trace, kept for debugging).  `set_handler_catches(1)` makes the handler itself execute a catch() that completes
// normally - a mudlib error handler that uses catch is ordinary LPC.
#include "/include/vcommon.h"

int handler_catches = 0;
int object_name_mode = 0;
void set_handler_catches (int v) { handler_catches = v; }
void set_object_name_mode (int v) { object_name_mode = v; }

private object connect (int port) { return new ("/vuser.c"); }
string creator_file (string file) { return "Root"; }
string get_root_uid () { return "Root"; }
string get_bb_uid () { return "Backbone"; }
int valid_seteuid (object ob, string newuid) { return 1; }
int valid_read (string path, mixed who, string fn) { return 1; }
int valid_write (string path, mixed who, string fn) { return 1; }
int valid_override (string file, string efun_name) { return 1; }

int hc_nop () { return 0; }
int hc_fail () { error ("inside the handler's own catch\n"); return 0; }

// sprintf ("%O", ob) applies this through safe_apply_master_ob: a generated program that defines safe_body ()
// gets it called here, i.e. inside a safe apply made by an efun
int object_names = 0;
string object_name (object ob) { object_names++; return "obj"; }
