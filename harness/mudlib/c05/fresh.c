// loaded and destructed again by the probe: shows whether load_object works
void create () { }
