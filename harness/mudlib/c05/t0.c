// hand-written experiment object
#include "/include/vcommon.h"
string oid = "?";
int sel;
void create () { seteuid (getuid ()); }
void set_oid (string s) { oid = s; "/vreg"->reg (s, this_object ()); }
void prep () { sel = 0; }
void cb (string s) { VL ("cb " + s); }
int f2 (int x) { VL ("say f2"); return x + 1; }
void f1 () { mixed e; e = catch (f2 (1)); VL ("catch " + e); }
mixed run1 () { int *a; f1 (); a = map (({ 1, 2 }), (: f2 :)); this_object ()->f1 (); return 1; }
string vname () { if (sel == 1) error ("boom in vname\n"); return "n"; }
mixed run2 () { string s; sel = 1; s = sprintf ("%O", this_object ()); VL ("say " + s); return 1; }
mixed run3 () { mixed e; e = catch (input_to ("no_such_fn")); VL ("catch " + e); return 1; }
mixed run4 () { mixed e; e = catch (load_object ("/c05/bad")); VL ("catch " + e); return 1; }
