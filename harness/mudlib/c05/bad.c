void create() { int x = ; }
