// a living object standing in /c05/room: it makes move_object() call init() in whatever enters the room
#include "/include/vcommon.h"
string oid = "?";
void create () { seteuid (getuid ()); enable_commands (); }
void set_oid (string s) { oid = s; "/vreg"->reg (s, this_object ()); }
void enter () { move_object ("/c05/room"); }
