// owner of a function pointer that outlives it (the C05 cases destruct this object after taking the pointer)
int nf () { return 0; }
mixed getfp () { return (: nf :); }
