// a container: destructing it makes the driver call move_or_destruct() in its contents
void create () { seteuid (getuid ()); }
