// fixed probe evaluation: exercises local calls, call_other, function pointers, callbacks, catch, and prints
// the registers visible from LPC plus the side state that efuns install outside the registers
#include "/include/vcommon.h"
string oid = "?";
void create () { seteuid (getuid ()); }
void set_oid (string s) { oid = s; "/vreg"->reg (s, this_object ()); }
int add1 (int x) { return x + 1; }
int twice (int x) { return 2 * x; }
string who (object o) { return o ? "/vreg"->oid_of (o) : "0"; }
void cb_probe () { }
void probe () {
  mixed e;
  int *a;
  string s;
  object u, o;
  mixed d, l;
  // the two guards that error_handler must have reset: destructing another object, loading a fresh file
  o = new ("/c05/box");
  d = catch (destruct (o));
  l = catch (load_object ("/c05/fresh"));
  if (o = find_object ("/c05/fresh")) destruct (o);
  s = "tp=" + who (this_player ()) + " po=" + who (previous_object ()) + " d=" + d + " l=" + l;
  a = map (({ 1, 2, 3 }), (: add1 :));
  a = filter (a, (: $1 > 2 :));
  e = catch (error ("probe-err\n"));
  s += " a=" + implode (map (a, (: "" + $1 :)), ",") + " e=" + e;
  s += " co=" + this_object ()->twice (21);
  u = "/vreg"->get ("u1");
  s += " side in=" + (u ? in_input (u) : -1);
  // the heart beat of the object under test (error_handler switches it off when an error reaches the driver)
  o = find_object ("/c05/gen/t");
  s += " hb=" + (o ? query_heart_beat (o) : 0);
  VL ("probe " + s);
}
