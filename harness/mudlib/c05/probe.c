// fixed probe evaluation: exercises local calls, call_other, function pointers, callbacks, catch, and prints
// the registers visible from LPC plus the side state that efuns install outside the registers
#include "/include/vcommon.h"
string oid = "?";
void create () { seteuid (getuid ()); }
void set_oid (string s) { oid = s; "/vreg"->reg (s, this_object ()); }
int add1 (int x) { return x + 1; }
int twice (int x) { return 2 * x; }
string who (object o) { return o ? "/vreg"->oid_of (o) : "0"; }
void cb_probe () { }
int add2 (int x, int y) { return x + y; }
void probe () {
  mixed e;
  int *a;
  string s;
  object u, o;
  mixed d, l;
  int *z;
  int lc;
  string ve;
  // interpreter scratch state first (before any other call can consume it): the count of arguments a `...` spread adds
  // (num_varargs) must be 0 again after a failed evaluation - an array literal, a local call and a varargs efun would add it
  z = ({ 7, 8 });
  lc = add2 (1, 2);
  ve = sprintf ("%d", 5);
  // the two guards that error_handler must have reset: destructing another object, loading a fresh file
  o = new ("/c05/box");
  d = catch (destruct (o));
  l = catch (load_object ("/c05/fresh"));
  if (o = find_object ("/c05/fresh")) destruct (o);
  s = "lit=" + sizeof (z) + " lc=" + lc + " ve=" + ve + " tp=" + who (this_player ()) + " po=" + who (previous_object ()) + " d=" + d + " l=" + l;
  a = map (({ 1, 2, 3 }), (: add1 :));
  a = filter (a, (: $1 > 2 :));
  e = catch (error ("probe-err\n"));
  s += " a=" + implode (map (a, (: "" + $1 :)), ",") + " e=" + e;
  s += " co=" + this_object ()->twice (21);
  u = "/vreg"->get ("u1");
  // every function of the user object that ran a failing command also ran its own tail (a recovery point inside it gave
  // control back to IT, with its own pc)
  s += " bal=" + (u ? u->balanced () : 1);
  s += " side in=" + (u ? in_input (u) : -1);
  // the heart beat of the object under test (error_handler switches it off when an error reaches the driver)
  o = find_object ("/c05/gen/t");
  s += " hb=" + (o ? query_heart_beat (o) : 0);
  VL ("probe " + s);
}
