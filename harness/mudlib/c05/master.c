// C05 verification master: permissive policies; applies made by efuns call back into scripted objects
#include "/include/vcommon.h"

// destruct(master()) reloads this file: create() of the NEW copy asks the object under test whether it has work for it
// (a generated body that runs - and can fail - while destruct_object() holds the fix_object_names error-handler slot)
void create () { object o; o = find_object ("/c05/gen/t"); if (o) o->mcreate (); }

private object connect (int port) { return new ("/vuser.c"); }
string creator_file (string file) { return "Root"; }
string get_root_uid () { return "Root"; }
string get_bb_uid () { return "Backbone"; }
int valid_seteuid (object ob, string newuid) { return 1; }
int valid_read (string path, mixed who, string fn) { return 1; }
int valid_write (string path, mixed who, string fn) { return 1; }

// safe_apply made by sprintf("%O", ob): the named object scripts what happens inside
string object_name (object ob) { return ob->vname (); }

// safe_apply made by the compiler error logging (smart_log): the driver passes (file, message) but this master
// DECLARES NO PARAMETERS, so both arguments are surplus and dropped on entry (no locals either: lowest possible stack)
void log_error () { VL ("say compile-error"); }

// spare objects (refilled by prep() of the test object, outside the evaluation under test): the error handler
// destructs one of them each time it runs.  error_handler() of the driver must have cleared restrict_destruct
// BEFORE it calls this function, also for an error that a catch() will receive; otherwise the destruct below
// raises "Only this_object() can be destructed from move_or_destruct" inside the mudlib error handler and the
// catch yields that message instead of the one that was raised.
object *spares = ({ });
void refill (int n) { spares -= ({ 0 }); while (sizeof (spares) < n) spares += ({ new ("/c05/box") }); }

// scripted extra work of the error handler (set by prep() of dedicated cases, which are evaluated WITHOUT fault injection):
// LPC that itself uses catch() and friends while the driver is between "error raised" and "error delivered".
//   1  a catch that catches nothing                 2  a catch that catches an error() raised inside the handler
//   4  a catch that catches a throw()               8  an efun callback (map) whose function catches an inner error
//  16  a nested catch (inner catches, outer catches nothing)
//  32  an array literal, a local call and a varargs efun (they must see clean interpreter scratch state)
// Nothing of this may change what the catch that is waiting for the ORIGINAL error yields.
int hscript;
void set_hscript (int n) { hscript = n; }
void hnoop () { }
void hboom () { error ("handler-inner\n"); }
void hthrow () { throw ("handler-thrown"); }
int hcb (int x) { mixed e; e = catch (hboom ()); return x; }
void hnest () { mixed e; e = catch (hboom ()); }
int hadd (int x, int y) { return x + y; }

string error_handler (mapping m, int caught) {
  string e = m["error"];
  object o;
  mixed hv;
  if (!stringp (e)) e = "?";
  VL ((caught ? "caught " : "err ") + e);
  if (sizeof (spares)) { o = spares[0]; spares = spares[1..]; if (o) destruct (o); }
  if (hscript & 1) hv = catch (hnoop ());
  if (hscript & 2) hv = catch (hboom ());
  if (hscript & 4) hv = catch (hthrow ());
  if (hscript & 8) hv = map (({ 1, 2 }), (: hcb :));
  if (hscript & 16) hv = catch (hnest ());
  // 32: the handler runs BEFORE the stack is unwound: the interpreter's scratch state (the count a `...` spread left for the
  // instruction that failed) must not leak into the handler's own array literals / local calls / varargs efuns
  if (hscript & 32) {
    hv = ({ 7, 8 });
    if (sizeof (hv) != 2 || hadd (1, 2) != 3 || sprintf ("%d", 5) != "5")
      VL ("say handler lit=" + sizeof (hv) + " scratch-mismatch");
  }
  // 64: the handler itself runs into a FRAMELESS error under a recovery point (a command of the user whose notify_fail()
  // function pointer belongs to a destructed object: safe_call_function_pointer raises before any frame is pushed) right after
  // a deeper call chain of other objects has used the control-stack slots above; no master apply happens for that error (the
  // handler is running), so nothing overwrites the stale frame above csp
  if (hscript & 64) { "/c05/gen/AO"->go (); "/c05/user"->deadcmd (); }
  return "";
}
