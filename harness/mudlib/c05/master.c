// C05 verification master: permissive policies; applies made by efuns call back into scripted objects
#include "/include/vcommon.h"

private object connect (int port) { return new ("/vuser.c"); }
string creator_file (string file) { return "Root"; }
string get_root_uid () { return "Root"; }
string get_bb_uid () { return "Backbone"; }
int valid_seteuid (object ob, string newuid) { return 1; }
int valid_read (string path, mixed who, string fn) { return 1; }
int valid_write (string path, mixed who, string fn) { return 1; }

// safe_apply made by sprintf("%O", ob): the named object scripts what happens inside
string object_name (object ob) { return ob->vname (); }

// safe_apply made by the compiler error logging: prints the message so that a compile error in a generated program is visible
void log_error (string f, string m) { VL ("compile " + m); }

string error_handler (mapping m, int caught) {
  string e = m["error"];
  if (!stringp (e)) e = "?";
  VL ((caught ? "caught " : "err ") + e);
  return "";
}
