// C05 verification master: permissive policies; applies made by efuns call back into scripted objects
#include "/include/vcommon.h"

private object connect (int port) { return new ("/vuser.c"); }
string creator_file (string file) { return "Root"; }
string get_root_uid () { return "Root"; }
string get_bb_uid () { return "Backbone"; }
int valid_seteuid (object ob, string newuid) { return 1; }
int valid_read (string path, mixed who, string fn) { return 1; }
int valid_write (string path, mixed who, string fn) { return 1; }

// safe_apply made by sprintf("%O", ob): the named object scripts what happens inside
string object_name (object ob) { return ob->vname (); }

// safe_apply made by the compiler error logging (smart_log): the driver passes (file, message) but this master
// DECLARES NO PARAMETERS, so both arguments are surplus and dropped on entry (no locals either: lowest possible stack)
void log_error () { VL ("say compile-error"); }

// spare objects (refilled by prep() of the test object, outside the evaluation under test): the error handler
// destructs one of them each time it runs.  error_handler() of the driver must have cleared restrict_destruct
// BEFORE it calls this function, also for an error that a catch() will receive; otherwise the destruct below
// raises "Only this_object() can be destructed from move_or_destruct" inside the mudlib error handler and the
// catch yields that message instead of the one that was raised.
object *spares = ({ });
void refill (int n) { spares -= ({ 0 }); while (sizeof (spares) < n) spares += ({ new ("/c05/box") }); }

string error_handler (mapping m, int caught) {
  string e = m["error"];
  object o;
  if (!stringp (e)) e = "?";
  VL ((caught ? "caught " : "err ") + e);
  if (sizeof (spares)) { o = spares[0]; spares = spares[1..]; if (o) destruct (o); }
  return "";
}
