// control object: what the master's log_error() does
int mode = 0;
void create () { seteuid (getuid ()); }
void set_mode (int m) { mode = m; }
void on_log () { if (mode == 1) error ("boom in log_error\n"); }
