// interactive object of the C05 cases
#include "/include/vcommon.h"
string oid = "?";
void create () { seteuid (getuid ()); }
void set_oid (string s) { oid = s; "/vreg"->reg (s, this_object ()); }
void cb (string s) { VL ("cb " + s); }
string process_input (string s) { return s; }
