// interactive object of the C05 cases
#include "/include/vcommon.h"
string oid = "?";
void create () { seteuid (getuid ()); enable_commands (); add_action ("dogo", "go"); }
void set_oid (string s) { oid = s; "/vreg"->reg (s, this_object ()); }
void cb (string s) { VL ("cb " + s); }
// a command line taken by the backend's process_user_command(): "go" evaluates the program under test
mixed process_input (string s) { if (s == "go") { "/c05/gen/t"->run (); return 1; } return s; }
// a command that no add_action() handles: user_parser() calls notify_no_command(), which calls the function given to
// notify_fail() with command_giver pushed on the command_giver save stack; the program under test supplies its body
int nf () { VL ("say nf"); "/c05/gen/t"->nfbody (); return 0; }
// (notify_fail() stores the function in the interactive command_giver: make that this object, whoever called)
int failcmd () { VL ("say set-cg"); enable_commands (); notify_fail ((: nf :)); return command ("xyzzy"); }
// a command with a verb: user_parser() sets last_verb (query_verb()) around the call; the program under test supplies the body
int dogo (string a) { VL ("say dogo"); "/c05/gen/t"->gobody (); return 1; }
int gocmd () { return command ("go"); }
// message() to an interactive: do_message() applies receive_message(); the program under test supplies the body
void receive_message (string c, string m) { "/c05/gen/t"->msgbody (); }
// a command nobody handles while the notify_fail() function pointer belongs to a DESTRUCTED object (installed by prep() of
// the case): notify_no_command() -> safe_call_function_pointer() raises "Owner … destructed" BEFORE any frame is pushed under
// its recovery point; afterwards this function must still be running as this object
int dpre, dpost;
int balanced () { return dpre == dpost; }
int deadcmd () {
  dpre++;
  command ("xyzzy");
  dpost++;      // (never reached when the recovery point handed control back with somebody else's pc)
  if (this_object () != find_object ("/c05/user")) VL ("say back co-changed");
  return 1;
}
