// a room: the environment that objects with init() hooks move into
void create () { seteuid (getuid ()); }
