// verification simul_efun object (intentionally almost empty)
int vsimul_marker () { return 42; }
