// C17 verification master: base policies + saving binaries allowed
#include "/include/vcommon.h"

private object connect (int port) { return new ("/vuser.c"); }
string creator_file (string file) { return "Root"; }
string get_root_uid () { return "Root"; }
string get_bb_uid () { return "Backbone"; }
int valid_seteuid (object ob, string newuid) { return 1; }
int valid_read (string path, mixed who, string fn) { return 1; }
int valid_write (string path, mixed who, string fn) { return 1; }
// saving is refused for a program while the marker file /c17/nosave<program file> exists (a case creates it with `file`)
int valid_save_binary (string file) { return file_size ("/c17/nosave" + file) < 0; }

string error_handler (mapping m, int caught) {
  string e = m["error"];
  if (!stringp(e)) e = "?";
  VL((caught ? "caught " : "err ") + e);
  return "";
}
