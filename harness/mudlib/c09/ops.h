// C09 op interpreter shared by user.c and obj.c (textually included)
//   ok | err | cerr | dest:<oid|me> | co:<delay>:<tag> | hb:<n> | w:<text> | meh:<mode> | it:<tag>
#include "/include/vcommon.h"
#define REG "/c09/reg"
string oid = "?";

void create () { seteuid (getuid ()); }
void set_oid (string s) { oid = s; REG->reg (s, this_object ()); }

void it_fire (string line, string tag);
void do_op (string s) {
  string *w = explode (s, ":");
  object o;
  switch (w[0]) {
  case "ok": break;
  case "err":
    VL ("x err " + oid);
    error ("boom " + oid + "\n");
    break;
  case "cerr":
    VL ("x cerr " + oid);
    catch (error ("cboom " + oid + "\n"));
    break;
  case "dest":
    if (w[1] == "me") w[1] = oid;
    VL ("x dest " + oid + " " + w[1]);
    o = REG->get (w[1]);
    if (o) destruct (o);
    break;
  case "co":
    VL ("x co " + oid + " " + w[2]);
    call_out ("co_fire", to_int (w[1]), w[2]);
    break;
  case "hb":
    VL ("x hb " + oid + " " + w[1]);
    set_heart_beat (to_int (w[1]));
    break;
  case "w":
    tell_object (this_object (), w[1] + "\n");
    break;
  case "meh":
    REG->set_meh (w[1]);
    break;
  case "snoop":
    VL ("x snoop " + oid + " " + w[1]);
    o = REG->get (w[1]);
    if (o && o != this_object () && interactive (o) && interactive (this_object ())) snoop (this_object (), o);
    break;
  case "it":
    VL ("x it " + oid + " " + w[1]);
    input_to ("it_fire", 0, w[1]);
    break;
  default:
    VL ("badop " + s);
  }
}

void do_ops (string ops) {
  foreach (string op in explode (ops, ";")) {
    do_op (op);
    if (!this_object ()) return;   // destructed itself: the script stops
  }
}

void run (string kind) {
  string s = REG->script (oid + ":" + kind);
  if (stringp (s)) do_ops (s);
}

void heart_beat () { VL ("t hb " + oid); run ("hb"); }
void it_fire (string line, string tag) { VL ("t it " + oid + " " + tag + " " + line); run ("it:" + tag); }
void co_fire (string tag) { VL ("t co " + oid + " " + tag); run ("co:" + tag); }
