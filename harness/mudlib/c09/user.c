// C09 interactive object: logon / process_input / command / net_dead / heart_beat / call_out hooks replay scripts
#include "/c09/ops.h"
int cmd (string arg);
void logon () {
  VL ("t logon " + oid);
  enable_commands ();
  add_action ("cmd", "", 1);
  tell_object (this_object (), "hello " + oid + "\n");
  run ("logon");
}
mixed process_input (string s) { VL ("t input " + oid + " " + s); run ("input"); return 0; }
int cmd (string arg) {
  string v = query_verb ();
  VL ("t cmd " + oid + " " + v);
  run ("cmd:" + v);
  write ("ack " + v + "\n");
  return 1;
}
void net_dead () { VL ("t netdead " + oid); run ("netdead"); }
// write_prompt(): applied by print_prompt() after every served line unless an input_to() is pending
void write_prompt () { VL ("t prompt " + oid); run ("prompt"); write ("> "); }
// receive_snoop(): applied for everything the snooped user types (get_user_data) and for every output it gets
// (add_message); the scripted snooper acts on typed lines only (raw input ends with CR LF)
void receive_snoop (string s) { if (strsrch (s, "\r") < 0) return; VL ("t snoop " + oid); run ("snoop"); }
