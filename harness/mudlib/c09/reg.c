// C09 registry: harness-level object ids, hook scripts, master error_handler behaviour, user ordinals
#include "/include/vcommon.h"
mapping obs = ([]);
mapping scripts = ([]);
string meh = "ok";
int nuser = 0;
int nconnect = 0;
int meh_depth = 0;

void create () { seteuid (getuid ()); }
void reg (string oid, object ob) { obs[oid] = ob; }
object get (string oid) { return obs[oid]; }
void set_script (string key, string ops) { scripts[key] = ops; }
string script (string key) { return scripts[key]; }
void set_meh (string m) { meh = m; }
string query_meh () { return meh; }
int next_user () { return ++nuser; }
int next_connect () { return ++nconnect; }
int query_meh_depth () { return meh_depth; }
void set_meh_depth (int d) { meh_depth = d; }

// final observation: objects whose heart beat is on, sorted
string hb_report () {
  string *on = ({ });
  foreach (string k, object o in obs) if (o && query_heart_beat (o)) on += ({ k });
  on = sort_array (on, 1);
  return implode (on, " ");
}
