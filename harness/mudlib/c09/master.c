// C09 verification master: connect() scripted per attempt (ok | err | rej), error_handler in three behaviours
//   ok      : report and return
//   raise   : report, then raise an error inside the handler
//   recurse : report, catch an inner error, then raise again -> the driver re-enters the handler (bounded: 3 levels)
#include "/include/vcommon.h"
#define REG "/c09/reg"

private object connect (int port) {
  int k = REG->next_connect ();
  string s = REG->script ("k" + k + ":connect");
  object u;
  VL ("t connect k" + k);
  if (s == "err") { VL ("x err k" + k); error ("boom k" + k + "\n"); }
  if (s == "rej") return 0;
  u = new ("/c09/user.c");
  u->set_oid ("u" + REG->next_user ());
  return u;
}
string creator_file (string file) { return "Root"; }
string get_root_uid () { return "Root"; }
string get_bb_uid () { return "Backbone"; }
int valid_seteuid (object ob, string newuid) { return 1; }
int valid_read (string path, mixed who, string fn) { return 1; }
int valid_write (string path, mixed who, string fn) { return 1; }

string error_handler (mapping m, int caught) {
  string e = m["error"], mode;
  int d;
  if (!stringp (e)) e = "?";
  e = replace_string (e, "\n", "");
  e = replace_string (e, "*", "");
  VL ("meh " + caught + " " + e);
  if (caught) return "";
  mode = REG->query_meh ();
  if (mode == "raise") error ("mehfail\n");
  if (mode == "recurse") {
    d = REG->query_meh_depth ();
    if (d < 2) {
      REG->set_meh_depth (d + 1);
      catch (error ("mehinner\n"));
      error ("mehagain\n");
    }
    REG->set_meh_depth (0);
  }
  return "";
}

// preload_objects(): epilog() names the files, preload() "loads" each one (scripted: `err` = the file fails to load)
string *epilog (int eflag) {
  string spec = REG->script ("preload");
  string *f = ({ });
  int i, n;
  VL ("t epilog");
  if (!stringp (spec)) return f;
  if (spec == "epilog-err") { VL ("x err epilog"); error ("boom epilog\n"); }
  n = sizeof (explode (spec, ","));
  for (i = 1; i <= n; i++) f += ({ "p" + i });
  return f;
}
void preload (string file) {
  string *b = explode (REG->script ("preload"), ",");
  int i = to_int (file[1..]);
  VL ("t preload " + file);
  if (i >= 1 && i <= sizeof (b) && b[i - 1] == "err") { VL ("x err " + file); error ("boom " + file + "\n"); }
}
