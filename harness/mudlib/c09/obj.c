// C09 scripted plain object: heart_beat / call_out / reset hooks replay scripts from the registry
#include "/c09/ops.h"
void reset () { if (oid != "?") { VL ("t reset " + oid); run ("reset"); } }
// clean_up(): called by the object sweep when nothing has applied to the object for CleanupDuration seconds;
// returning 1 keeps the object on the list of objects to clean up
int clean_up (int inherited) { if (oid != "?") { VL ("t cleanup " + oid); run ("cleanup"); } return 1; }
