// C09 scripted plain object: heart_beat / call_out / reset hooks replay scripts from the registry
#include "/c09/ops.h"
void reset () { if (oid != "?") { VL ("t reset " + oid); run ("reset"); } }
