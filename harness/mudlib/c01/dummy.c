// throw-away object (cloned and destructed by the fuzz programs)
void create () { }
int query () { return 1; }
