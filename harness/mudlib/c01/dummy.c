// throw-away object (cloned, moved and destructed by the generated programs)
void create () { }
int query () { return 1; }
void move_here (object dest) { move_object (dest); }
