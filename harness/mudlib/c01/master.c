// C01 master: the base verification master, but errors are logged as  err|caught <first 100 chars> len=<n>
// (the driver's log line buffer is shorter than the longest error message)
inherit "/master";
#include "/include/vcommon.h"

string error_handler (mapping m, int caught) {
  string e = m["error"];
  int n;
  if (!stringp(e)) e = "?";
  n = strlen(e);
  while (n > 0 && e[n-1] == '\n') n--;
  e = n > 0 ? e[0..n-1] : "";
  VL((caught ? "caught " : "err ") + (n > 100 ? e[0..99] : e) + " len=" + n);
  return "";
}
