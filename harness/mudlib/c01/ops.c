// C01 index / range one-liners: one LPC function per opcode case of eval_instruction / push_indexed_lvalue /
// push_lvalue_range / f_range / f_extract_range.  Compiled once; the harness applies them to
// (container, i, j, rhs) tuples.  No type declarations on purpose: every operand type reaches the opcode.
#include "/include/vcommon.h"

void create () { seteuid (getuid ()); }
void set_oid (string s) { }

// rvalue forms
mixed op_index (mixed c, mixed i, mixed j, mixed r)  { return c[i]; }          // F_INDEX
mixed op_rindex (mixed c, mixed i, mixed j, mixed r) { return c[<i]; }         // F_RINDEX
mixed op_nn (mixed c, mixed i, mixed j, mixed r)     { return c[i..j]; }       // F_NN_RANGE
mixed op_rn (mixed c, mixed i, mixed j, mixed r)     { return c[<i..j]; }      // F_RN_RANGE
mixed op_nr (mixed c, mixed i, mixed j, mixed r)     { return c[i..<j]; }      // F_NR_RANGE
mixed op_rr (mixed c, mixed i, mixed j, mixed r)     { return c[<i..<j]; }     // F_RR_RANGE
mixed op_ne (mixed c, mixed i, mixed j, mixed r)     { return c[i..]; }        // F_NE_RANGE
mixed op_re (mixed c, mixed i, mixed j, mixed r)     { return c[<i..]; }       // F_RE_RANGE
// lvalue forms (push_indexed_lvalue on an lvalue, then F_ASSIGN)
mixed op_lindex (mixed c, mixed i, mixed j, mixed r)  { c[i] = r; return c; }  // F_INDEX_LVALUE
mixed op_lrindex (mixed c, mixed i, mixed j, mixed r) { c[<i] = r; return c; } // F_RINDEX_LVALUE
// the "(x = y)[i] = r" forms: the indexed value is on the stack, not an lvalue
mixed op_sindex (mixed c, mixed i, mixed j, mixed r)  { mixed x; (x = c)[i] = r; return x; }
mixed op_srindex (mixed c, mixed i, mixed j, mixed r) { mixed x; (x = c)[<i] = r; return x; }
// range lvalues (push_lvalue_range + assign_lvalue_range / copy_lvalue_range)
mixed op_lnn (mixed c, mixed i, mixed j, mixed r) { c[i..j] = r; return c; }
mixed op_lrn (mixed c, mixed i, mixed j, mixed r) { c[<i..j] = r; return c; }
mixed op_lnr (mixed c, mixed i, mixed j, mixed r) { c[i..<j] = r; return c; }
mixed op_lrr (mixed c, mixed i, mixed j, mixed r) { c[<i..<j] = r; return c; }
// increments through a char / array-element lvalue
mixed op_linc (mixed c, mixed i, mixed j, mixed r) { c[i]++; return c; }
// value-used range assignment: F_ASSIGN -> assign_lvalue_range (the statement forms above use F_VOID_ASSIGN ->
// copy_lvalue_range)
mixed op_alnn (mixed c, mixed i, mixed j, mixed r) { mixed x; x = (c[i..j] = r); return c; }
mixed op_alrn (mixed c, mixed i, mixed j, mixed r) { mixed x; x = (c[<i..j] = r); return c; }
mixed op_alnr (mixed c, mixed i, mixed j, mixed r) { mixed x; x = (c[i..<j] = r); return c; }
mixed op_alrr (mixed c, mixed i, mixed j, mixed r) { mixed x; x = (c[<i..<j] = r); return c; }
// dispatch-time type check failure with a caller-chosen value in the message (bad_argument)
mixed bad_arg (mixed s) { return allocate (s); }
mixed bad_arg2 (mixed s) { return clear_bit ("", s); }
// the same opcodes applied to a TEMPORARY (c + j, j = empty container of the same kind: a fresh value whose only
// reference is the stack slot, so the opcode's own free is the last one)
mixed op_tindex (mixed c, mixed i, mixed j, mixed r)  { return (c + j)[i]; }
mixed op_trindex (mixed c, mixed i, mixed j, mixed r) { return (c + j)[<i]; }
mixed op_tne (mixed c, mixed i, mixed j, mixed r)     { return (c + j)[i..]; }
mixed op_tre (mixed c, mixed i, mixed j, mixed r)     { return (c + j)[<i..]; }
mixed op_tnn (mixed c, mixed i, mixed j, mixed r)     { return (c + j)[i..r]; }
mixed op_trr (mixed c, mixed i, mixed j, mixed r)     { return (c + j)[<i..<r]; }
