// C03 verification master: permissive policies; runtime errors are reported by the harness as `!err`
// (the text of the message is not part of the canonical trace)
private object connect (int port) { return new ("/vuser.c"); }
string creator_file (string file) { return "Root"; }
string get_root_uid () { return "Root"; }
string get_bb_uid () { return "Backbone"; }
int valid_seteuid (object ob, string newuid) { return 1; }
int valid_read (string path, mixed who, string fn) { return 1; }
int valid_write (string path, mixed who, string fn) { return 1; }
string error_handler (mapping m, int caught) { return ""; }
void log_error (string file, string msg) { debug_message ("COMPILE " + msg); }
