// C03: functions reached through inheritance (`::h_add (a, b)`) by the generated programs.
// The generator knows these bodies and emits them in the S-expression form of every program.
mixed h_id (mixed a) { return a; }
mixed h_add (mixed a, mixed b) { return a + b; }
mixed h_sub (mixed a, mixed b) { return a - b; }
mixed h_mul (mixed a, mixed b) { return a * b; }
mixed h_idx (mixed a, mixed b) { return a[b]; }
mixed h_sum (mixed a) { mixed s; mixed x; s = 0; foreach (x in a) s += x; return s; }
