// C06 interpreter object (lpc mode): executes the operation lines of a case with real LPC code.
// variable order matters to the harness: v = variable 0, obs = variable 1
#include "/include/vcommon.h"

mixed *v;
mixed *obs;
int *hs;

class c06cls { mixed f0; mixed f1; mixed f2; }

void create () {
  seteuid (getuid ());
  v = allocate (10);
  obs = allocate (4);
  hs = allocate (4);
}
void set_oid (string s) { }

void boom (mixed a, mixed b, int depth) {
  mixed *tmp = ({ a, b, ({ a, b }) });
  mapping m = ([ "k" : a, 1 : tmp ]);
  if (depth > 0) boom (b, a, depth - 1);
  else error ("c06 boom\n");
}

int cmp (mixed a, mixed b) { return 0; }
int keep (mixed a) { return 1; }
mixed same (mixed a) { return a; }
mixed raise (mixed a) { error ("c06 in callback\n"); return a; }

// "builder aborted half-way": callbacks that raise after a few calls, while the efun holds a partial result
int cnt;
mixed cb_raise (mixed x) { if (cnt-- <= 0) error ("c06 half-way\n"); return ({ x }); }
int cb_keep (mixed x) { if (cnt-- <= 0) error ("c06 half-way\n"); return 1; }
int cb_cmp (mixed x, mixed y) { if (cnt-- <= 0) error ("c06 half-way\n"); return cnt & 1 ? -1 : 1; }
mixed three (mixed x, mixed y, mixed z) { return ({ x, y, z }); }
// a function result nobody else holds: n copies of x
mixed *mk (int n, mixed x) { mixed *r = allocate (n); int i; for (i = 0; i < n; i++) r[i] = x; return r; }
mixed fe (mixed x) { foreach (mixed e in x) { if (e) return ({ e }); } return 0; }     // return out of a running foreach
void catch_tell (string s) { }
mixed va (mixed *args...) { return this_object ()->three (args...); }               // argument list expanded into a call
mixed keep2 (mixed k, mixed v, mixed x) { return 1; }
mixed same2 (mixed k, mixed v, mixed x) { return ({ v, x }); }
int cmp3 (mixed x, mixed y, mixed z) { return 0; }
void receive_message (string c, string m) { }
mixed store;

// efuns / operators applied to slot values, results dropped; errors are caught
void run_efun (int f, mixed a, mixed b) {
  mixed r, q, l1, l2;
  class c06cls oc;
  mapping m;
  string s1, s2;
  int i1;
  switch (f) {
  case 0: r = sizeof (a); break;
  case 1: r = copy (a); break;
  case 2: if (mapp (a)) r = keys (a) + values (a); break;
  case 3: if (arrayp (a) && arrayp (b)) { r = a + b; r = a - b; r = a & b; } break;
  case 4: if (arrayp (a)) r = sort_array (a, "cmp"); break;
  case 5: if (arrayp (a)) r = filter_array (a, "keep"); if (mapp (a)) r = filter_mapping (a, (: 1 :)); break;
  case 6: if (arrayp (a)) r = map_array (a, "same"); if (mapp (a)) r = map_mapping (a, (: $2 :)); break;
  case 7: r = sprintf ("%O %O", a, b); break;
  case 8: r = ({ a, b, ({ a }), ([ 1 : b ]) }); break;
  case 9: if (mapp (a) && mapp (b)) r = a + b; break;
  case 10: r = catch (raise (a)); break;
  case 11: if (arrayp (a)) r = catch (map_array (a, "raise")); break;
  case 12: r = save_variable (({ 1, "s", ([ 2 : 3 ]) })); r = restore_variable (r); break;
  case 13: if (arrayp (a)) r = a[0..1]; r = allocate (3); r[0] = r; r[0] = 0; break;
  case 14: r = (: same, a :); r = evaluate (r); break;
  case 15: if (arrayp (a)) { r = unique_array (a, (: 1 :)); r = member_array (b, a); } break;
  case 16: r = explode ("a b c", " "); r = implode (r, a ? "," : ";"); break;
  case 17: r = typeof (a) + typeof (b); break;
  case 18: if (arrayp (a)) foreach (mixed e in a) r = e; if (mapp (a)) foreach (mixed k, mixed e in a) r = ({ k, e }); break;
  case 19: r = ({ a }) + ({ b }); r -= ({ a }); break;
  // ---- value builders aborted half-way (the partial result must be released) ----
  case 20: cnt = 2; r = map_array (({ a, b, ({ a }), "s", 5 }), "cb_raise"); break;
  case 21: cnt = 2; r = filter_array (({ ({ a }), b, ({ b }), "t" }), "cb_keep"); break;
  case 22: cnt = 1; r = map_mapping (([ "k1" : a, "k2" : b, 3 : ({ a }) ]), (: cb_raise ($2) :)); break;
  case 23: cnt = 1; r = filter_mapping (([ "k1" : a, ({ 1 }) : b, 7 : ({ b }) ]), (: cb_keep ($2) :)); break;
  case 24: cnt = 3; r = sort_array (({ ({ a }), ({ b }), ({ 1 }), ({ 2 }), ({ 3 }) }), "cb_cmp"); break;
  case 25: r = ({ ({ a }), ([ "k" : b ]), "lit" + sizeof (b), raise (a) }); break;
  case 26: r = ([ "k" : ({ a }), ({ b }) : ([ 1 : a ]), "j" : raise (b) ]); break;
  case 27: r = this_object ()->three (({ a }), ([ 1 : b ]), raise (a)); break;
  case 28: r = sprintf ("%s %O %d", "x" + sizeof (a), b, "notanumber"); sprintf ("%d", 1); break;
  case 29: r = ({ a, ({ b }) }) + raise (a); break;
  case 30: s1 = "%s %d %" + "y"; r = sscanf ("ab 12 cd", s1, s2, i1); break;
  case 31: r = allocate (5); r[0] = ({ a }); r[1] = allocate (-1); break;
  case 32: foreach (mixed x in ({ ({ a }), ([ 2 : b ]), "s" + sizeof (a) })) { r = ({ x, r }); if (mapp (x)) raise (x); } break;
  case 33: cnt = 2; r = unique_array (({ ({ a }), ({ b }), ({ 1 }), ({ 2 }) }), (: cb_raise :)); break;
  case 34: r = regexp (({ "a" + sizeof (a), "b" }), "(" + "["); break;
  case 35: r = "abc" + sizeof (a) + "def"; r = r + ({ a }); r = r + ([ ]); break;
  case 36: cnt = 1; r = map_array (({ ({ a }), ({ b }) }), (: catch (cb_raise ($1)) ? ({ $1 }) : ({ $1, $1 }) :)); break;
  case 37: r = explode ("a,b,c,d," + sizeof (a), ","); r = implode (r, (: raise ($1 + $2) :)); break;
  case 38: r = restore_variable (save_variable (({ a && 1, "str", ([ "k" : ({ 1, "x" }), ({ 2 }) : "v" ]) }))[0..<4]); break;
  case 40: r = sort_array (({ ({ a }), "s" + sizeof (a), 1, ({ b }) }), 1); break;          // built-in sort refuses a mixed array
  case 41: r = sort_array (({ ({ ({ a }) }), ({ ({ b }) }) }), -1); break;                    // ... arrays whose 1st element is an array
  case 42: cnt = 1; r = filter_array (({ ({ a }), ({ b }), "x" + sizeof (b) }), (: cb_keep :)); r = map_array (({ a, b }), (: $1 + raise ($1) :)); break;
  case 43: r = implode (map_array (({ 1, 2, 3 }), (: "n" + $1 :)), (: $1 + ({ $2 }) :)); break;
  case 44: r = save_variable (({ a, b, this_object () }))  + raise (a); break;
  // ---- efuns that take, keep or build references and were never called before (round 5) ----
  case 45:
    if (mapp (a)) { r = filter (a, "keep2", this_object (), b); r = map (a, "same2", this_object (), b); }
    r = filter (([ "k" : a, 2 : ({ b }) ]), "keep2", this_object (), ({ b }));
    r = map (([ "k" : a, ({ 1 }) : b ]), "same2", this_object (), ({ b }));
    break;
  case 46: r = unique_array (({ ({ a }), ({ b }), "s", 3 }), (: typeof ($1) + $2 :), "x"); r = unique_mapping (({ a, b, ({ a }), "s" }), (: typeof ($1) :)); break;
  case 47: r = sort_array (({ ({ a }), ({ b }), ({ 1 }) }), "cmp3", ({ b })); r = sort_array (({ 3, 1, 2 }), (: $1 - $2 + sizeof ($3) :), ({ a })); break;
  case 48: r = ({ a, 0, ([ ]) }); r[1] = r; r[2]["self"] = r; s1 = sprintf ("%O", r); r[2] = 0; r[1] = 0; break;   // cyclic while it runs
  case 49: r = parse_command ("get sword from bag" + sizeof (a), ({ }), " 'get' %s 'from' %s ", s1, s2); r = ({ s1, s2 }); break;
  case 50: r = ({ ({ a }), ([ 1 : b ]) }); i1 = sscanf ("ab 12 cd", "%s %d %s", r[0], i1, r[1]); s1 = "x" + sizeof (a); sscanf (s1 + " yy zz", "%s %s", s1, s2); break;
  case 51: i1 = call_out ("cmp3", 100, ({ a }), b, 1); r = find_call_out (i1) + find_call_out ("cmp3"); r = call_out_info (); remove_call_out ("cmp3"); break;
  case 71: i1 = call_out ((: cb_keep :), 100, ({ a }), b); r = find_call_out (i1); r = call_out_info (); remove_call_out (i1); break;   // not with injected errors: the handle would be lost
  case 52: r = (: three, ({ a }), b :); r = evaluate (r, ([ 1 : a ])); r = (: three :); r = evaluate (r, a, b, ({ a, b })); r = function_owner ((: same, a :)); break;
  case 53: r = bind ((: same, ({ a }) :), this_object ()); r = evaluate (r); break;
  case 54: r = call_other (this_object (), ({ "three", ({ a }), b, 1 })); r = ({ this_object (), this_object () })->same (({ b })); break;
  case 55: store_variable ("store", ({ a, ([ 1 : b ]) })); r = fetch_variable ("store"); store_variable ("store", 0); break;
  case 56: r = reg_assoc ("abc12def", ({ "[0-9]+", "[a-z]+" }), ({ ({ a }), ({ b }) }), ({ 0 })); r = replace_string ("aXbXc" + sizeof (a), "X", "yy"); r = match_path (([ "/a" : ({ a }), "/a/b" : b ]), "/a/b/c"); break;
  case 57: r = implode (({ ({ a }), ({ b }), ({ 1 }) }), (: $1 + $2 :), ({ })); r = implode (({ 1, 2 }), (: ({ $1, $2 }) :)); break;
  case 58: r = refs (a) + refs (({ b })); r = functions (this_object ()); r = variables (this_object (), 1); r = call_stack (0) + call_stack (1) + call_stack (2); r = all_previous_objects (); break;
  case 59: r = catch (throw (({ a, ([ 1 : b ]) }))); r = catch (error ("x" + sizeof (a) + "\n")); break;
  case 60: r = allocate_buffer (8); r[0..3] = r[4..7]; r = read_buffer (r, 0, 4); r = crc32 (allocate_buffer (4)); break;
  case 61: r = objects ((: $1 == this_object () :)); r = children ("/c06/main"); r = deep_inherit_list (this_object ()) + inherit_list (this_object ()); break;
  case 62: r = repeat_string ("ab" + sizeof (a), 3); r = upper_case (r) + capitalize (r) + lower_case (r); r = set_bit ("", 5); r = clear_bit (r, 5); r = explode (r + "x", ""); break;
  case 63: r = ({ a, b, 1, 2 }); r = r[0..<2] + r[<1..] + r[1..2]; r -= ({ b }); r &= ({ a, 1 }); r += r; break;
  case 64: r = ([ 1 : a, "k" : ({ b }) ]); r += ([ 2 : b ]); r = r + ([ 1 : 0 ]); map_delete (r, 1); r = keys (r) + values (r); break;
  case 65: { class c06cls o = new (class c06cls); o->f0 = ({ a }); o->f1 = o->f0 + ({ b }); r = o; r = copy (o); } break;
  case 66: message ("cls", "text" + sizeof (a), ({ this_object () }), ({ })); message ("cls", "t" + sizeof (b), this_object ()); break;
  case 67: r = restore_variable ("({1,({2,}),([\"k\":({3,}),]),})"); r = save_variable (({ r, a && 1 })); break;
  case 68: r = map ("abc" + sizeof (a), (: $1 + 1 :)); r = filter (({ a, b, 1 }), (: $1 :)); break;
  case 69: r = evaluate ((: $1 + raise ($2) :), ({ a }), b); break;
  case 70:   // a mapping that grows through several table sizes and shrinks again, values and keys counted
    r = ([ ]);
    for (i1 = 0; i1 < 40; i1++) r[i1] = ({ a });
    for (i1 = 0; i1 < 12; i1++) r[({ i1 })] = b;
    for (i1 = 0; i1 < 40; i1 += 2) map_delete (r, i1);
    r = r + ([ 1 : r[1] ]);
    break;
  // ---- every lvalue-assignment form with counted old and new values (round 6); `store` is reset by "flush" ----
  case 72:   // locals: F_VOID_ASSIGN_LOCAL, F_ASSIGN to a local, transfer of a dying local
    l1 = ({ a }); l2 = l1; l1 = b; l2 = (l1 = ({ b, a })); l1 = l2 = ({ l1, l2 }); l2 = mk (2, l1); l1 = 0;
    break;
  case 73:   // globals: F_VOID_ASSIGN / F_ASSIGN on a global lvalue, op-assign on a global
    store = ({ a }); store = (store = ({ b, store })); store += ({ a }); store = ([ 1 : store ]); store += ([ 2 : b ]); store = 0;
    break;
  case 74:   // indexed lvalues (array element, mapping value, nested)
    r = ({ ({ a }), b, ([ 1 : a ]) }); r[0] = r[1]; r[1] = (r[0] = ({ a })); r[0] += ({ b }); r[2][1] = r[0]; r[2][2] = (r[2][3] = ({ b }));
    r[<1] = r[0]; r[0][0] = ({ r[1] });
    break;
  case 75:   // range lvalues on arrays: temporary / shared right-hand side, same / shorter / longer, both forms
    r = ({ ({ a }), ([ 1 : b ]), "s" + sizeof (a), a, b }); q = ({ ({ a }), b });
    r[0..1] = ({ ({ b }), a }); r[1..2] = ({ a }); r[0..0] = ({ a, b, ({ a }) }); r[0..1] = q; r[2..3] = q; r[1..0] = q;
    l1 = (r[0..1] = ({ b, a })); l1 = (r[0..0] = q); l1 = (r[<2..<1] = mk (2, a)); r[0..<1] = mk (1, q);
    break;
  case 76:   // class members: F_MEMBER_LVALUE with both assignment forms and op-assign
    oc = new (class c06cls); oc->f0 = ({ a }); oc->f0 = (oc->f1 = ({ b })); oc->f1 += ({ a }); oc->f2 = oc->f0; oc->f2 = ([ 1 : oc->f1 ]); oc->f0 = 0; r = oc;
    break;
  case 77:   // op-assign forms on holders of counted values
    r = ({ a }); r += ({ b }); r -= ({ a }); r = r & ({ b, a }); m = ([ 1 : a ]); m += ([ 2 : ({ b }) ]); m[1] = m[2];
    q = "x" + sizeof (a); q += "y"; q += sizeof (b); l1 = q; l1 += q; r = ({ q, l1 }); r[0] += r[1]; m[3] = q; m[3] += "z";
    break;
  case 78:   // ++ / -- on numbers that live in holders next to counted values
    r = ({ 1, ({ a }), 2 }); r[0]++; ++r[0]; r[2]--; --r[2]; m = ([ "k" : 1, "v" : ({ b }) ]); m["k"]++; m["n"]++; --m["k"];
    oc = new (class c06cls); oc->f0 = 1; oc->f1 = ({ a }); oc->f0++; --oc->f0; l1 = r[0]++ + m["k"]--; store = 5; store++; --store; store = 0;
    break;
  case 79:   // range lvalues on strings and buffers: temporary / shared right-hand side, same and other length
    q = "abcdef" + sizeof (a); q[0..1] = "xy"; q[0..0] = "long" + q; l1 = q; l1[1..2] = q; l2 = (q[2..3] = l1); l2 = (q[0..1] = "zz" + sizeof (b));
    r = allocate_buffer (8); r[0..1] = allocate_buffer (2); r[0..3] = allocate_buffer (1); l1 = r; l1[0..0] = r; l2 = (r[1..2] = allocate_buffer (3));
    break;
  // ---- operators and efuns the opcode histogram (hook verif_op_hist) showed as never executed (round 6) ----
  case 80:   // || ! != < > on counted operands, reverse index / range forms
    r = a || b; r = b || ({ a }); r = !a + !({ b }); r = (a != b) + (({ a }) != ({ a })) + (a == b);
    r = ("x" + sizeof (a) < "y") + ("x" > "w" + sizeof (b)); q = ({ 1, ({ a }), b, "s" + sizeof (a) });
    r = q[<1]; r = q[<3..2]; r = q[<3..<1]; r = q[1..]; q[<2..2] = ({ a }); q[<2..<1] = ({ b, ({ a }) }); r = q[<2];
    break;
  case 81:   // op-assign and ++/-- in value context, while (i--), mapping composition
    q = ({ a }); r = (q += ({ b })); r = (q -= ({ a })); m = ([ 1 : a ]); r = (m += ([ 2 : b ])); l1 = ({ 1, 2 }); r = ++l1[0]; r = --l1[1];
    i1 = 3; while (i1--) r = ({ r, a }); l2 = "s" + sizeof (a); r = (l2 += "t"); r = ([ 1 : 2 ]) * ([ 2 : ({ a }) ]);
    break;
  case 82:   // leaving a running foreach: break, return
    foreach (mixed e in ({ ({ a }), b, ({ b }) })) { r = e; if (arrayp (e)) break; }
    foreach (mixed k, mixed e in ([ 1 : ({ a }), 2 : b ])) { r = ({ k, e }); break; }
    r = fe (({ 0, ({ a }), b })); r = fe (({ ({ b }) }));
    foreach (mixed e in "ab" + sizeof (a)) { r = e; break; }
    break;
  case 83:   // class with initialisers, argument expansion, inherited call, time_expression
    oc = new (class c06cls, f0 : ({ a }), f1 : b); r = oc; r = va (({ a }), b, mk (2, a)); r = "/c06/uobj"->call_base (({ a }));
    r = time_expression { q = ({ a, b }); };
    break;
  case 84:   // type predicates and one-argument efuns: the argument is released
    r = objectp (a) + functionp ((: same, a :)) + classp (new (class c06cls)) + bufferp (allocate_buffer (1)) + intp (({ a })) + undefinedp (([ ])[1]);
    r = floatp (b) + clonep (this_object ()) + virtualp (this_object ()) + interactive (this_object ()) + userp (this_object ()) + living (this_object ());
    r = file_name (this_object ()) + geteuid (this_object ()) + ctime (0); r = localtime (0); r = to_float (1); r = random (3);
    break;
  case 85:   // object relations: results are arrays of objects / strings
    r = all_inventory (this_object ()) + deep_inventory (this_object ()); r = first_inventory (this_object ()); r = environment ();
    r = present ("x", this_object ()); r = users () + livings () + heart_beats () + named_livings (); r = find_object ("/c06/main");
    r = inherits ("/c06/base", find_object ("/c06/uobj")); r = function_exists ("same", this_object ()); r = origin (); r = previous_object ();
    r = master (); r = shallow_inherit_list (find_object ("/c06/uobj")); r = rusage ();
    break;
  case 86:   // strings, bits, files
    r = strsrch ("abc" + sizeof (a), "b"); r = strcmp ("a" + sizeof (a), "b"); r = test_bit (set_bit ("", 3), 3) + next_bit (set_bit ("", 3), 0);
    r = get_dir ("/c06/"); r = stat ("/c06/main.c"); r = file_size ("/c06/main.c") + file_length ("/c06/base.c"); r = read_file ("/c06/base.c", 1, 1);
    r = read_bytes ("/c06/base.c", 0, 4); r = crypt ("x" + sizeof (a), "ab"); r = pow (2.0, 2.0); r = time () + uptime ();
    break;
  case 87:   // messages to objects
    tell_object (this_object (), "t" + sizeof (a)); tell_room (this_object (), "r" + sizeof (b)); tell_room (this_object (), "r", ({ this_object () }));
    message ("c", "m" + sizeof (a), this_object (), ({ this_object () }));
    break;
  case 88:   // a mapping with more than 256 and more than 65536/256 nodes, released at once
    m = ([ ]); for (i1 = 0; i1 < 300; i1++) m[i1] = (i1 & 7) ? i1 : ({ a }); r = m; m = 0; r = sizeof (r) + sizeof (keys (r));
    break;
  case 89:   // bind() of function pointers compiled into an object's own / inherited program: the copy counts on the same func_ref
    // (the harness master denies binding to another object: that path ends in f_bind's error after its pushes)
    if (objectp (obs[0])) {
      q = obs[0]->mkff (1); l2 = bind (q, obs[0]); l1 = bind (obs[0]->mkff (2), obs[0]); r = evaluate (l2, a);
      q = ({ l1, l2, obs[0]->mkff (3), obs[0]->mkff (0) }); r = catch (bind (q[2], this_object ())); r = bind (q[3], this_object ());
    }
    break;
  // ---- mapping composition: m * n, m *= n, m *= m (in place, through a temporary copy) on value-closed (every value is a
  //      key: permutations), partially closed and disjoint mappings, with counted keys and values ----
  case 90:   // m *= m in place
    m = ([ 1 : 2, 2 : 3, 3 : 1 ]); m *= m; m *= m;                                  // permutation: nothing is deleted
    q = ({ a }); l1 = ({ b }); m = ([ q : l1, l1 : q ]); m *= m;                  // closed, keys and values are arrays
    m = ([ 1 : 2, 2 : ({ a }), 3 : 1 ]); m *= m;                                    // partially closed: one entry deleted
    m = ([ 1 : ({ a }), 2 : ({ b }) ]); m *= m;                                     // disjoint: everything deleted
    m = ([ "k" : "k", "j" : "k" ]); m *= m; r = m; r *= r;
    break;
  case 91:   // m * n and m *= n with two mappings, m * m as an expression
    m = ([ 1 : 2, 2 : 3, 3 : 1 ]); r = m * m; r = m * ([ 1 : ({ a }), 2 : b, 3 : 7 ]); r = m * ([ 1 : ({ a }) ]); r = m * ([ ]);
    q = ([ 2 : ({ a }), 3 : ([ 1 : b ]), 1 : "s" + sizeof (a) ]); m *= q; m = ([ 1 : 2, 2 : 9 ]); m *= q; m = ([ 5 : 6 ]); m *= q;
    l1 = ({ a }); m = ([ l1 : l1 ]); r = m * m; r = m * ([ l1 : b ]); store = ([ 1 : 1, 2 : 1 ]); store *= store; store *= ([ 1 : ({ a }) ]); store = 0;
    break;
  case 39: r = allocate_mapping (3); r["k"] = ({ a }); r[({ b })] = r["k"] + raise (b); break;
  }
}

// returns 1; the harness has already checked that the operation is applicable
int do_op (string line) {
  string *w = explode (line, " ");
  int a, b, c, d, e, f;
  mixed x;
  if (sizeof (w) > 1) a = to_int (w[1]);
  if (sizeof (w) > 2) b = to_int (w[2]);
  if (sizeof (w) > 3) c = to_int (w[3]);
  if (sizeof (w) > 4) d = to_int (w[4]);
  if (sizeof (w) > 5) e = to_int (w[5]);
  if (sizeof (w) > 6) f = to_int (w[6]);
  switch (w[0]) {
  case "newarr": v[a] = allocate (b); break;
  case "newmap": v[a] = allocate_mapping (0); break;
  case "newcls": v[a] = new (class c06cls); break;
  case "newbuf": v[a] = allocate_buffer (b); break;
  case "newfun": v[a] = obs[b]->mkfun (v[c]); break;
  case "newffun": v[a] = obs[b]->mkff (c); break;
  case "fill": {
    mixed *arr = allocate (b);
    int i;
    for (i = 0; i < b; i++) arr[i] = v[c];
    v[a] = arr;
    break;
  }
  case "assign": v[a] = v[b]; break;
  case "free": v[a] = 0; break;
  case "aset":
    if (arrayp (v[a])) v[a][b] = v[c];
    else {
      class c06cls o = v[a];
      switch (b) {
      case 0: o->f0 = v[c]; break;
      case 1: o->f1 = v[c]; break;
      case 2: o->f2 = v[c]; break;
      }
    }
    break;
  case "aget":
    if (arrayp (v[b])) v[a] = v[b][c];
    else {
      class c06cls o = v[b];
      switch (c) {
      case 0: v[a] = o->f0; break;
      case 1: v[a] = o->f1; break;
      case 2: v[a] = o->f2; break;
      }
    }
    break;
  case "mset": v[a][v[b]] = v[c]; break;
  case "mdel": map_delete (v[a], v[b]); break;
  case "newobj": obs[a] = new ("/c06/uobj"); break;
  case "newobjr": obs[a] = new ("/c06/rc" + ({ "11", "12", "21", "31" })[b]); break;
  case "setvar": obs[a]->set (b, v[c]); break;
  case "getvar": v[a] = obs[b]->get (c); break;
  case "dest": destruct (obs[a]); break;
  case "drop": obs[a] = 0; break;
  case "call": hs[a] = obs[b]->docall (a, c, v[d], v[e]); break;
  case "rmcall": remove_call_out (hs[a]); break;
  case "rmcalln": obs[b]->rmbyname (a); break;
  case "rmall": obs[a]->rmallcalls (); break;
  case "sent": obs[b]->doact (a, v[c], v[d]); break;
  case "rmsent": obs[b]->rmact (a); break;
  case "newmstr": v[a] = w[2]; break;            // a run-time built (malloc) string
  case "sappend": v[a] += b; break;              // string += number: EXTEND_SVALUE_STRING
  case "sjoin": v[a] += v[b]; break;             // string += string: SVALUE_STRING_JOIN
  case "sadd": v[a] = v[b] + c; break;           // string + number on a pushed copy
  case "saddl": v[a] = c + v[b]; break;          // number + string: SVALUE_STRING_ADD_LEFT
  case "sadd2": v[a] = v[b] + v[c]; break;       // string + string on two pushed copies
  case "schar": v[a][b] = w[3][0]; break;        // unlink_string_svalue + byte store
  case "srange": v[a][b..c] = w[4]; break;       // unlink_string_svalue + copy_lvalue_range
  case "rest": catch (restore_variable (w[1])); break;      // value builder on a (possibly damaged) save text
  case "resto": "/c06/robj"->rest (w[1]); break;            // the same through restore_object() of a file
  case "inpr": obs[a]->doinput2 (v[b], v[c]); break;
  case "inp": obs[a]->doinput (v[b], v[c], (b + c) & 1); break;     // odd slot sum: get_char() (same bookkeeping, own code)
  case "err": boom (v[a], v[b], 3); break;
  // assignment to a range lvalue: statement form (copy_lvalue_range) and value form (assign_lvalue_range)
  case "arange":
    if (f) { x = (v[a][b..b + c - 1] = mk (d, v[e])); x = 0; }
    else v[a][b..b + c - 1] = mk (d, v[e]);
    break;
  case "arangev":
    if (e) { x = (v[a][b..b + c - 1] = v[d]); x = 0; }
    else v[a][b..b + c - 1] = v[d];
    break;
  case "brange": v[a][b..b + c - 1] = allocate_buffer (d); break;
  case "reclaim":
    // reclaim_objects() walks the variables of every object, this one included: `v` (the slots), then `obs` (the handles)
    a = reclaim_objects ();
    break;
  case "flush":
    // after an injected error: what an aborted group may legitimately have left behind
    store = 0;
    while (remove_call_out ("cmp3") >= 0) ;
    sprintf ("%d", 1);
    break;
  case "efun":
    catch (run_efun (a, v[b], v[c]));
    // (s)printf keeps its output buffers after an error and releases them on its next call
    sprintf ("%d", 1);
    break;
  default: VL ("badop " + line);
  }
  return 1;
}
