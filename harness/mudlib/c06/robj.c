// C06: restore_object() of a save file whose first variable has the given (possibly damaged) value text
mixed a;
mixed b;
void create () { seteuid (getuid ()); }
void rest (string t) {
  write_file ("/c06tmp.o", "#/c06/robj.c\na " + t + "\nb ({1,\"s\",([\"k\":({2,}),]),})\n", 1);
  catch (restore_object ("/c06tmp"));
  a = 0;
  b = 0;
}
