// C06: the program /c06/uobj inherits.  No variables: the harness addresses x0..x3 of /c06/uobj as variables 0..3.
mixed base_fn (mixed x) { return ({ x }); }
