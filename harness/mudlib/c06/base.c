// C06: the program /c06/uobj inherits.  No variables: the harness addresses x0..x3 of /c06/uobj as variables 0..3.
mixed base_fn (mixed x) { return ({ x }); }
// function pointers compiled into THIS program, made while an object that inherits it runs this code:
// make_functional_funp counts them on this program's func_ref (current_prog), dealloc_funp releases them there
mixed mkff_base (int anon) {
  if (anon) return function (mixed x) { return ({ x }); };
  return (: ({ $1 }) :);
}
