// C06 replace_program() family, layout 31: the first inherited program, 3 variable(s)
mixed av0;
mixed av1;
mixed av2;
void set_oid (string s) { }
void set (int i, mixed a) {
  switch (i) {
  case 0: av0 = a; break;
  case 1: av1 = a; break;
  case 2: av2 = a; break;
  }
}
mixed get (int i) {
  switch (i) {
  case 0: return av0;
  case 1: return av1;
  case 2: return av2;
  }
  return 0;
}
