// C06 replace_program() family, layout 12: the second inherited program, 2 variable(s) at offset 1
mixed bv0;
mixed bv1;
void set_oid (string s) { }
void set (int i, mixed a) {
  switch (i) {
  case 0: bv0 = a; break;
  case 1: bv1 = a; break;
  }
}
mixed get (int i) {
  switch (i) {
  case 0: return bv0;
  case 1: return bv1;
  }
  return 0;
}
