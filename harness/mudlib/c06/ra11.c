// C06 replace_program() family, layout 11: the first inherited program, 1 variable(s)
mixed av0;
void set_oid (string s) { }
void set (int i, mixed a) {
  switch (i) {
  case 0: av0 = a; break;
  }
}
mixed get (int i) {
  switch (i) {
  case 0: return av0;
  }
  return 0;
}
