// C06: the interactive user (made interactive by the harness with create_test_interactive); it only exists so that
// input_to() has somebody to wait for
void set_oid (string s) { }
void catch_tell (string s) { }
