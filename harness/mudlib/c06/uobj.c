// C06 object: four variables (released by destruct2), call_out / add_action callbacks that capture values.
// variable order matters to the harness: x0..x3 are variables 0..3
inherit "/c06/base";      // program_t.ref of the base program: its blueprint + the inherit table of this program

mixed x0, x1, x2, x3;

void set_oid (string s) { }

void set (int i, mixed a) {
  switch (i) {
  case 0: x0 = a; break;
  case 1: x1 = a; break;
  case 2: x2 = a; break;
  case 3: x3 = a; break;
  }
}

mixed get (int i) {
  switch (i) {
  case 0: return x0;
  case 1: return x1;
  case 2: return x2;
  case 3: return x3;
  }
  return 0;
}

// call_out callbacks: cb drops its arguments, cbs<k> keeps the first one in variable k
void cb (mixed a, mixed b) { }
void cbs0 (mixed a, mixed b) { x0 = a; }
void cbs1 (mixed a, mixed b) { x1 = a; }
void cbs2 (mixed a, mixed b) { x2 = a; }
void cbs3 (mixed a, mixed b) { x3 = a; }

// cbe raises an error (its arguments are popped by the error recovery of call_out()), cbd destructs its own object
void cbe (mixed a, mixed b) { error ("c06 call_out callback\n"); }
void cbd (mixed a, mixed b) { destruct (this_object ()); }

// a call of the inherited function (F_CALL_INHERITED)
mixed call_base (mixed x) { return ::base_fn (x); }

// function pointers compiled into a program: w = 0 / 2 in this program, w = 1 / 3 in the inherited one
mixed mkff (int w) {
  switch (w) {
  case 0: return (: $1 :);
  case 1: return mkff_base (0);
  case 2: return function (mixed x) { return x; };
  case 4: return (: x0 :);                                  // uses a global: not bindable (a flag bit in hdr.type)
  case 5: return function (mixed x) { return ({ x, x1 }); };
  }
  return mkff_base (1);
}

// function pointer with one bound argument
mixed mkfun (mixed a) { return (: cb, a :); }

int docall (int k, int st, mixed a, mixed b) {
  return call_out (st == 1 ? "cbs" + k : st == 2 ? "cbe" : st == 3 ? "cbd" : "cb", 1, a, b);
}

int act (string arg, mixed a, mixed b) { return 1; }
void doact (int k, mixed a, mixed b) { add_action ("act", "verb" + k, 0, a, b); }
void rmact (int k) { remove_action ("act", "verb" + k); }

// input_to callback with two carry-over arguments (the harness sets command_giver to the interactive user)
void icb (string str, mixed a, mixed b) { }
// icb2 installs a new input_to from inside the callback (the driver has freed the old sentence before the call)
void icb2 (string str, mixed a, mixed b) { input_to ("icb", 0, b, a); }
void doinput2 (mixed a, mixed b) { input_to ("icb2", 0, a, b); }
void doinput (mixed a, mixed b, int gc) { if (gc) get_char ("icb", 0, a, b); else input_to ("icb", 0, a, b); }

// remove_call_out by function name / all call_outs of this object
void rmbyname (int k) { remove_call_out ("cbs" + k); }
void rmallcalls () { remove_call_out (); }
