// C06 replace_program() family, layout 31: inherits ra31 (3 variables, offset 0) and rb31 (1 variables, offset 3),
// 0 own variable(s); 4 variables altogether like /c06/uobj.  shrink("0") / shrink("1") replace the program by the
// first / second inherited one (deferred: replace_programs()).
inherit "/c06/ra31";
inherit "/c06/rb31";
void set_oid (string s) { }
void set (int i, mixed a) {
  switch (i) {
  case 0: av0 = a; break;
  case 1: av1 = a; break;
  case 2: av2 = a; break;
  case 3: bv0 = a; break;
  }
}
mixed get (int i) {
  switch (i) {
  case 0: return av0;
  case 1: return av1;
  case 2: return av2;
  case 3: return bv0;
  }
  return 0;
}
void shrink (string w) { replace_program (w == "1" ? "/c06/rb31" : "/c06/ra31"); }
