// C06 replace_program() family, layout 11: inherits ra11 (1 variables, offset 0) and rb11 (1 variables, offset 1),
// 2 own variable(s); 4 variables altogether like /c06/uobj.  shrink("0") / shrink("1") replace the program by the
// first / second inherited one (deferred: replace_programs()).
inherit "/c06/ra11";
inherit "/c06/rb11";
mixed own0;
mixed own1;
void set_oid (string s) { }
void set (int i, mixed a) {
  switch (i) {
  case 0: av0 = a; break;
  case 1: bv0 = a; break;
  case 2: own0 = a; break;
  case 3: own1 = a; break;
  }
}
mixed get (int i) {
  switch (i) {
  case 0: return av0;
  case 1: return bv0;
  case 2: return own0;
  case 3: return own1;
  }
  return 0;
}
void shrink (string w) { replace_program (w == "1" ? "/c06/rb11" : "/c06/ra11"); }
