// C06 replace_program() family, layout 21: the second inherited program, 1 variable(s) at offset 2
mixed bv0;
void set_oid (string s) { }
void set (int i, mixed a) {
  switch (i) {
  case 0: bv0 = a; break;
  }
}
mixed get (int i) {
  switch (i) {
  case 0: return bv0;
  }
  return 0;
}
