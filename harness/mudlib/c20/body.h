// C20 scripted object body (included by every /c20/<dir>/<file>.c and by /c20/master.c).
// Ops are comma separated strings executed in this object's context:
//   seteuid,s:<name> | seteuid,i:<n>      seteuid("<name>") / seteuid(<n>)
//   export,<oid>                          export_uid(<object oid>)
//   load,<path>                           load_object(<path>)
//   call,<path> | calla,<path> | tellroom,<path> | filter,<path>
//                                         call_other(<path>, ..) / call_other(({ <path> }), ..) / tell_room(<path>, ..) /
//                                         filter(({ 1 }), "fn", <path>)
//   clone,<newoid>,<path>                 clone_object(<path>, <newoid>)
//   dest,<oid>                            destruct(<object oid>)
//   reload,<oid>                          reload_object(<object oid>)
//   later,<op> | hb,<op>                  (top level only) the op runs from a call_out / from the next heart_beat of this object
//   via,<oid>,<op>                        evaluate((: run_op, <op> :) made by <oid>), then geteuid(that function)
//   bind,<oid>,load,<path> | bind,<oid>,clone,<newoid>,<path>
//                                         bind((: find_object, <path>, 1 :) / (: clone_object, <path>, <newoid> :), <oid>): the
//                                         efun pointer made HERE is re-bound to <oid> (master valid_bind) and then does the
//                                         load / clone of an ordinary `load` / `clone` op of <oid>; then geteuid(bound function)
// Virtual objects: a load/clone of a path without a file asks master::compile_object, which (policy) clones a
// template as `v<n>`; the driver renames that object to the virtual path.
// Every op prints one result line `r ...`; create() prints `new <oid> <object name> <uid> <euid>`.
#include "/include/vcommon.h"
#define REG "/c20/reg"
#define RESERVED ({ "m", "se", "u1i", "u1a", "u1b", "u1c", "u2a", "u2b", "u2c", "bba", "bbb", "bbc", "roota", "rootb", "rootc", "odda", "oddb", "oddc" })

string oid;
mixed bound_fp;     // bind(): the bound efun pointer the next load / clone op of this object has to use

string my_oid () { return oid; }
string us (mixed u) { return stringp (u) ? "s:" + u : "0"; }

// error text -> stable token (first line, no trailing newline, '*' prefix kept)
string canon_err (mixed e) {
  string s;
  if (!stringp (e)) return "nonstring";
  s = e;
  if (strlen (s) && s[strlen (s) - 1] == '\n') s = s[0..strlen (s) - 2];
  if (s[0..13] == "*Bad argument ") return "*Bad_argument";
  if (s[0..29] == "*master::valid_object() denied") return "*valid_object_denied";    // (the text names the file)
  return replace_string (s, " ", "_");
}

void announce () {
  string d, f, fn;
  int n;
  fn = file_name (this_object ());
  if (!stringp (oid)) {
    oid = REG->oid_of (this_object ());            // reload_object cleared the variable: keep the registered id
    if (oid == "?") {
      if (sscanf (fn, "/c20/%s/%s", d, f) == 2 && sscanf (fn, "%*s#%d", n) != 2) oid = d + f;
    }
  }
  REG->reg (oid, this_object ());
  VL ("new " + oid + " " + fn + " " + us (getuid ()) + " " + us (geteuid ()));
}

string do_op (string s);

// one op: `do` line, the op with its `r` line, uid snapshot
string run_op (string op) {
  string r;
  VL ("do " + oid + " " + op);
  REG->push_actor (oid);
  r = do_op (op);
  REG->pop_actor ();
  if (this_object ()) REG->snap ();   // after destruct(this_object()) the registry prints the snapshot
  return r;
}

// driver-started contexts: the op runs from a call_out / from this object's heart_beat (current_object = this object, no caller)
string pending_hb;
void sched_co (string op) { call_out ("run_op", 0, op); }
void sched_hb (string op) { pending_hb = op; set_heart_beat (1); }
void heart_beat () {
  string op;
  op = pending_hb;
  pending_hb = 0;
  set_heart_beat (0);
  if (stringp (op)) run_op (op);
}

// bind(): run one load / clone op here, creating through the efun pointer somebody bound to this object
string run_bound (string op, mixed f) {
  string r;
  bound_fp = f;
  r = run_op (op);
  bound_fp = 0;
  return r;
}

// a function pointer owned by this object that performs one op when somebody evaluates it
mixed make_fp (string op) { return (: run_op ($(op)) :); }

// create()-script key of an object: its file name, clones share `<path>#`
string script_key (object o) {
  string key;
  int n;
  key = file_name (o);
  if (sscanf (key, "%s#%d", key, n) == 2) key += "#";
  return key;
}

// derived registry id of a blueprint path, "?" for other names
string bp_oid (string path) {
  string d, f;
  if (sscanf (path, "/c20/%s/%s", d, f) == 2) return d + f;
  return "?";
}

#ifndef C20_MASTER
// create(): announce, snapshot, then the script the case attached to this file (blueprint: key = path, clone: path + "#")
void create (mixed s) {
  string key, ops;
  int n;
#ifdef C20_SIMUL
  // driver start: neither the master nor the registry exist yet; later calls are reload_object(simul_efun object)
  if (!find_object (REG)) { oid = "se"; return; }
#endif
  if (stringp (s)) oid = s;
  announce ();
  REG->snap ();
  key = script_key (this_object ());
  ops = REG->script (key);
  if (!stringp (ops)) return;
  REG->enter ();
  foreach (string op in explode (ops, ";")) run_op (op);
  REG->leave ();
}
#endif

string do_op (string s) {
  string *w;
  mixed r, e, fpv, bf;
  object o;
  w = explode (s, ",");
  r = 0;
  e = 0;
  bf = bound_fp;
  bound_fp = 0;
  switch (w[0]) {
  case "seteuid":
    if (w[1][0..1] == "i:") e = catch (r = seteuid (to_int (w[1][2..])));
    else e = catch (r = seteuid (w[1][2..]));
    break;
  case "export":
    o = REG->get (w[1]);
    if (!o) r = "nobj";
    else e = catch (r = export_uid (o));
    break;
  case "call": case "calla": case "tellroom": case "filter":
    // other efuns that reach load_object through find_or_load_object with this object as current_object: call_other on a
    // file name (also inside an array of targets), tell_room on a file name.  Same expectations as `load` (the plugin
    // compares them with the model's load op)
    o = find_object (w[1]);
    if ((!o || !stringp (o->my_oid ())) && REG->get (bp_oid (w[1]))) { r = "nobj"; break; }
    if (w[0] == "call") e = catch (call_other (w[1], "my_oid"));
    else if (w[0] == "calla") e = catch (call_other (({ w[1] }), "my_oid"));
    else if (w[0] == "filter") e = catch (filter (({ 1 }), "my_oid", w[1]));   // callback descriptor with a file name
    else e = catch (tell_room (w[1], ""));
    o = find_object (w[1]);
    // "could not find the object" of these efuns = the 0 of load_object; the errors of load_object itself stay errors
    if (e && canon_err (e) != "*Can't_load_objects_when_no_effective_user." && canon_err (e) != "*policy_error" &&
        canon_err (e) != "*valid_object_denied") e = 0;
    if (!e && o) {
      if (!stringp (o->my_oid ())) o->announce ();
      r = o->my_oid ();
    }
    break;
  case "load":
    o = find_object (w[1]);
    // the harness never lets two live objects share a registry id
    if ((!o || !stringp (o->my_oid ())) && REG->get (bp_oid (w[1]))) { r = "nobj"; break; }
    e = catch (o = (bf ? evaluate (bf) : load_object (w[1])));
    if (!e && o) {
      if (!stringp (o->my_oid ())) o->announce ();   // half-made object left by a failed load: initialise late
      r = o->my_oid ();
    }
    break;
  case "clone":
    if (member_array (w[1], RESERVED) != -1 || REG->get (w[1])) { r = "nobj"; break; }   // reserved or taken id
    if (!find_object (w[2]) && REG->get (bp_oid (w[2]))) { r = "nobj"; break; }
    if (!find_object (w[2]) && w[2] == "/c20/u1/i") { r = "nobj"; break; }      // inheriting blueprints are loaded, not cloned unloaded
    e = catch (o = (bf ? evaluate (bf) : clone_object (w[2], w[1])));
    if (!e && o) r = o->my_oid ();
    break;
  case "via":   // via,<oid>,<op...>: evaluate a function pointer made by <oid>; the op runs in the OWNER's context
    o = REG->get (w[1]);
    if (!o) { r = "nobj"; break; }
    fpv = o->make_fp (implode (w[2..], ","));
    REG->snap ();
    REG->enter ();
    e = catch (evaluate (fpv));
    REG->leave ();
    if (!e) r = us (geteuid (fpv));      // geteuid(function) = euid of the owner
    break;
  case "bind":  // bind,<oid>,load,<path> | bind,<oid>,clone,<newoid>,<path>
    o = REG->get (w[1]);
    if (!o || sizeof (w) < 4 || (w[2] != "load" && w[2] != "clone") || (w[2] == "clone" && sizeof (w) < 5)) { r = "nobj"; break; }
    // (load_object is the efun find_object with its flag preset: an efun POINTER to it would be a plain find_object)
    if (w[2] == "load") fpv = (: find_object, w[3], 1 :);
    else fpv = (: clone_object, w[4], w[3] :);
    e = catch (fpv = bind (fpv, o));          // master valid_bind (this_object(), this_object(), o) unless o is this object
    if (e) break;
    REG->snap ();
    REG->enter ();
    e = catch (o->run_bound (implode (w[2..], ","), fpv));
    REG->leave ();
    if (!e) r = us (geteuid (fpv));          // geteuid(function) = euid of the NEW owner
    break;
  case "dest":
    o = REG->get (w[1]);
    if (!o || REG->depth () > 0) r = "nobj";   // not from inside a create() script
    else if (w[1] == "m") {
      // destruct of the master: the driver loads a new master (a load on behalf of this object) and makes it root;
      // a master without get_root_uid() is not reloaded (its uids would come from an unlogged creator_file answer)
      if (!function_exists ("get_root_uid", o)) { r = "nobj"; break; }
      e = catch (destruct (o));
      if (!e) {
        o = master ();
        VL ("new m /c20/master " + us (getuid (o)) + " " + us (geteuid (o)));   // file name: same for all master variants
        r = 1;
      }
    }
    else if (w[1] == "se") { e = catch (destruct (o)); r = 1; }   // the driver refuses: error
    else { REG->unreg (w[1]); destruct (o); r = 1; }
    break;
  case "reload":
    o = REG->get (w[1]);
    // inside a create() script only objects whose own create() runs no script (no re-entrant scripts)
    if (!o || (REG->depth () > 0 && stringp (REG->script (w[1] == "m" ? "/c20/master" : script_key (o))))) r = "nobj";
    else {
      if (w[1] == "m") REG->set_reloading (1);
      e = catch (reload_object (o));
      REG->set_reloading (0);
      r = 1;
    }
    break;
  default:
    r = "badop";
  }
  if (e) r = "err " + canon_err (e);
  VL ("r " + r);
  return "" + r;
}
