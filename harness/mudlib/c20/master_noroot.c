// C20 verification master without get_root_uid() (`cfg noroot`)
#define C20_NO_ROOT
#include "/c20/master.c"
