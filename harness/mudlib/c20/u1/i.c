// C20 inheriting blueprint: its program cannot be compiled before /c20/u2/a is loaded - load_object then loads that file first
// (for the same current_object) and starts again.  Everything else (scripted body) is inherited.
inherit "/c20/u2/a";
