// C20 verification master without get_root_uid() and get_bb_uid() (`cfg nobb noroot`)
#define C20_NO_BB
#define C20_NO_ROOT
#include "/c20/master.c"
