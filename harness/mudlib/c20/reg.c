// C20 registry: harness-level object ids -> objects; runs one op in an object and prints the uid snapshot
#include "/include/vcommon.h"
mapping obs = ([]);
// `cfg simul`: the simul_efun object is /c20/simul and is an actor like any other, id `se`
void create () { if (find_object ("/c20/simul")) obs["se"] = find_object ("/c20/simul"); }
void reg (string oid, object ob) { obs[oid] = ob; }
void unreg (string oid) { map_delete (obs, oid); }
object get (string oid) { if (oid == "m") return master (); return obs[oid]; }
string oid_of (object ob) {
  if (ob == master ()) return "m";
  foreach (string k, object o in obs) if (o == ob) return k;
  return "?";
}
string us (mixed u) { return stringp (u) ? "s:" + u : "0"; }
void snap () {
  string t;
  object o;
  t = "q m=" + us (getuid (master ())) + "/" + us (geteuid (master ()));
  foreach (string k in sort_array (keys (obs), 1)) {
    o = obs[k];
    if (!o) continue;
    t += " " + k + "=" + us (getuid (o)) + "/" + us (geteuid (o)) + (virtualp (o) ? "*" : "");
  }
  VL (t);
}
mapping scripts = ([]);
mapping pols = ([ "cf" : ([ "u1" : "s:u1", "u2" : "s:u2", "bb" : "s:Backbone", "root" : "s:Root", "odd" : "i:0" ]),
                  "vs" : ([ ]), "co" : ([ ]), "vb" : ([ ]), "vo" : ([ ]) ]);
mapping uid_names = ([ ]);      // "root" / "bb" -> what get_root_uid() / get_bb_uid() of the master answer now
void set_uid_name (string kind, string n) { uid_names[kind] = n; }
string uid_name (string kind) { return uid_names[kind]; }
int vseq = 0;
mapping pol (string kind) { return pols[kind]; }
int next_v () { return ++vseq; }
int nest = 0;
// the objects running ops, innermost last (run_op pushes / pops): the creating object of a creator_file call
string *actors = ({ });
void push_actor (string o) { actors += ({ o }); }
void pop_actor () { if (sizeof (actors)) actors = actors[0..sizeof (actors) - 2]; }
string cur_actor () { return sizeof (actors) ? actors[sizeof (actors) - 1] : "?"; }
void set_script (string key, string ops) { if (ops == "-") map_delete (scripts, key); else scripts[key] = ops; }
string script (string key) { return scripts[key]; }
void enter () { nest++; }
void leave () { nest--; }
int depth () { return nest; }
string pending_connect;
string take_connect () { string c; c = pending_connect; pending_connect = 0; return c; }
string *preloads = ({ });
string *take_preloads () { string *p; p = preloads; preloads = ({ }); return p; }
int reloading_master;
int reloading () { return reloading_master; }
void set_reloading (int x) { reloading_master = x; }
object driven;      // the object whose scheduled op the coming backend tick runs
// after the tick: an object that destructed itself could not print its snapshot
int driven_set;
void tick_done () { if (driven_set && !driven) snap (); driven = 0; driven_set = 0; }
void act (string oid, string op) {
  object o;
  mixed e;
  o = get (oid);
  nest = 0;
  actors = ({ });
  if (!o) { VL ("do " + oid + " " + op); VL ("r nobj"); snap (); return; }
  // driver-started contexts: the op is only scheduled here; the harness then lets one backend tick run it
  if (oid == "m" && op[0..7] == "connect,") { pending_connect = op[8..]; return; }
  if (oid == "m" && op[0..7] == "preload,") { preloads = ({ op[8..] }); return; }
  if (op[0..5] == "later,") { driven = o; driven_set = 1; o->sched_co (op[6..]); return; }
  if (op[0..2] == "hb,") { driven = o; driven_set = 1; o->sched_hb (op[3..]); return; }
  e = catch (o->run_op (op));
  if (e) { VL ("r uncaught"); snap (); }
  else if (!o) snap ();
}
