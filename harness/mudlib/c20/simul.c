// C20 simul_efun object as an actor (`cfg simul`): loaded by the driver before the master exists, so
// give_uid_to_object gives it "NONAME" / 0; registered as `se` by /c20/reg.  It runs the same scripted body as
// every other C20 object (no exemption for it exists in load_object / clone_object).
int vsimul_marker () { return 42; }
#define C20_SIMUL
#include "/c20/body.h"
