// C20 verification master: switchable, logged uid policies.
//   creator_file(path): answer chosen by the directory under /c20 (`pol cf <dir> [drop+]<spec>`)
//   valid_seteuid(ob, uid): answer chosen by (oid, uid) with `*` wildcards (`pol vs <oid> <uid> <spec>`)
// spec:  s:<text> string | i:<n> int | arr array | err runtime error in the apply | none value 0
// every call is logged as `VL cf <path> <spec>` / `VL vs <oid> s:<uid> <spec>` / `VL co <path> <spec>`
#define C20_MASTER
#include "/c20/body.h"

// the policy tables live in the registry object so that they survive a reload of the master (destruct(master()))
#define cfpol ((mapping) REG->pol ("cf"))
#define vspol ((mapping) REG->pol ("vs"))
#define copol ((mapping) REG->pol ("co"))
#define vbpol ((mapping) REG->pol ("vb"))
#define vopol ((mapping) REG->pol ("vo"))

// create(): at the first load and after `dest,m` only the id is set (the registry does not exist yet / the `dest` op announces
// the new master once set_master made it root); after reload_object(master()) - the registry marks it - it announces itself and
// runs its create() script like every other object
void create () {
  string ops;
  oid = "m";
  if (!find_object (REG) || !REG->reloading ()) return;
  VL ("new m /c20/master " + us (getuid ()) + " " + us (geteuid ()));
  REG->snap ();
  ops = REG->script ("/c20/master");
  if (!stringp (ops)) return;
  REG->enter ();
  foreach (string op in explode (ops, ";")) run_op (op);
  REG->leave ();
}

// connect(): `do m connect,<newoid>,<path>` - the driver's mudlib_connect() applies connect(); the master clones the user
// object (an ordinary, logged clone op of the master) and hands it back
private object connect (int port) {
  string c;
  c = REG->take_connect ();
  if (stringp (c)) { run_op ("clone," + c); return REG->get (explode (c, ",")[0]); }
  return new ("/vuser.c");
}
// variants (`cfg noroot` / `cfg nobb` / `cfg novb`): the plugin writes /c20/master_<flags>.c files that define these macros
// and include this file: set_master then finds no get_root_uid() (master keeps "NONAME" / 0) / no get_bb_uid(); bind()
// finds no valid_bind() (a NULL result refuses)
// `pol root <name>` / `pol bb <name>` change the answers (kept in the registry object, which does not exist yet when the
// first master is loaded): a master reloaded later (`dest,m`) announces another root / backbone uid
// (the answers are strings built at run time: nothing else holds them, so a driver that keeps the pointer across its next
// master apply reads freed memory - which the sanitizer build reports)
string fresh (string s) { return s[0..0] + s[1..]; }
#ifndef C20_NO_ROOT
string get_root_uid () { object r; r = find_object (REG); if (r && stringp (r->uid_name ("root"))) return fresh (r->uid_name ("root")); return fresh ("Root"); }
#endif
#ifndef C20_NO_BB
string get_bb_uid () { object r; r = find_object (REG); if (r && stringp (r->uid_name ("bb"))) return fresh (r->uid_name ("bb")); return fresh ("Backbone"); }
#endif
int valid_read (string path, mixed who, string fn) { return 1; }
int valid_write (string path, mixed who, string fn) { return 1; }
string error_handler (mapping m, int caught) {
  string e;
  if (caught) return "";
  e = m["error"];
  if (!stringp (e)) e = "?";
  VL ("uncaught " + e);
  return "";
}


// preload: `do m preload,<path>` - the driver's preload_objects() asks epilog() for the list and calls preload() for each
// file: the master then loads it (an ordinary, logged load op of the master)
string *epilog (int eflag) { return REG->take_preloads (); }
void preload (string file) { run_op ("load," + file); }

void set_pol (string kind, string a, string b, string c) {
  mapping m;
  if (kind == "root" || kind == "bb") { REG->set_uid_name (kind, a); return; }
  m = REG->pol (kind);
  if (kind == "cf") m[a] = b;
  else if (kind == "co") { if (b == "-") map_delete (m, a); else m[a] = b; }
  else if (kind == "vs") m[a + ":" + (b == "-" ? "" : b)] = c;
  else if (kind == "vb") m[a + ":" + b] = c;
  else if (kind == "vo") { if (b == "-") map_delete (m, a); else m[a] = b; }
}

mixed answer (string spec) {
  if (spec[0..1] == "s:") return spec[2..];
  if (spec[0..1] == "i:") return to_int (spec[2..]);
  if (spec == "arr") return ({ });
  if (spec == "err") error ("policy error\n");
  return 0;
}

// valid_object(ob): asked by load_object about every new blueprint, before creator_file (`pol vo <dir> <spec>`; without a
// policy for the directory: approve silently).  An approving answer closes the segment with a snapshot.
mixed valid_object (object ob) {
  string file, d, f, spec;
  mixed a;
  file = file_name (ob);
  if (sscanf (file, "/c20/%s/%s", d, f) != 2 || !stringp (spec = vopol[d])) return 1;
  VL ("vo " + file + " " + spec);
  a = answer (spec);
  if ((intp (a) && a) || (!intp (a))) REG->snap ();
  return a;
}

mixed creator_file (string file) {
  string d, f, spec;
  if (sscanf (file, "/c20/%s/%s", d, f) != 2 || !stringp (spec = cfpol[d])) return "Root";
  // re-entrancy (`drop+<spec>`): give_uid_to_object reads the creator's uids only after this apply returned.  When the
  // creating object (the object running the innermost op) is this master, it drops its own euid first - an ordinary,
  // logged op nested in the creating op (the snapshot closes the open segment)
  if (spec[0..4] == "drop+") {
    spec = spec[5..];
    if (REG->cur_actor () == "m") { REG->snap (); run_op ("seteuid,i:0"); }
  }
  VL ("cf " + file + " " + spec);
  return answer (spec);
}

// compile_object(path): policy per directory (`pol co <dir> <spec>`): none | i:<n> | err | t:<template path> = clone the
// template as `v<n>` (an ordinary op of the master, logged like any other) and hand it to the driver
mixed compile_object (string file) {
  string d, f, spec, r;
  int n;
  if (sscanf (file, "/c20/%s/%s", d, f) != 2 || !stringp (spec = copol[d])) return 0;
  VL ("co " + file + " " + spec);
  REG->snap ();
  if (spec[0..1] == "t:") {
    n = REG->next_v ();
    r = run_op ("clone,v" + n + "," + spec[2..]);
    if (r != "v" + n) return 0;     // also when the template was virtual itself and another object came back
    return REG->get (r);
  }
  return answer (spec);
}

mixed valid_seteuid (object ob, string uid) {
  string o, spec;
  o = REG->oid_of (ob);
  spec = vspol[o + ":" + uid];
  if (!stringp (spec)) spec = vspol[o + ":*"];
  if (!stringp (spec)) spec = vspol["*:" + uid];
  if (!stringp (spec)) spec = vspol["*:*"];
  if (!stringp (spec)) spec = "i:1";
  VL ("vs " + o + " s:" + uid + " " + spec);
  return answer (spec);
}

// valid_bind(doer, old owner, new owner) for bind(): answer chosen by (doer oid, new owner oid) with `*` wildcards
// (`pol vb <doer> <new owner> <spec>`), logged as `VL vb <doer> <new owner> <spec>`
#ifndef C20_NO_VB
mixed valid_bind (object doer, object owner, object victim) {
  string d, n, spec;
  d = REG->oid_of (doer);
  n = REG->oid_of (victim);
  spec = vbpol[d + ":" + n];
  if (!stringp (spec)) spec = vbpol[d + ":*"];
  if (!stringp (spec)) spec = vbpol["*:" + n];
  if (!stringp (spec)) spec = vbpol["*:*"];
  if (!stringp (spec)) spec = "i:1";
  VL ("vb " + d + " " + n + " " + spec);
  return answer (spec);
}
#endif
