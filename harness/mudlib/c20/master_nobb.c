// C20 verification master without get_bb_uid() (`cfg nobb`)
#define C20_NO_BB
#include "/c20/master.c"
