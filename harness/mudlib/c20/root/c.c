// C20 scripted object (uid decided by the master policy for this directory)
#include "/c20/body.h"
