#ifndef VCOMMON_H
#define VCOMMON_H
// every canonical output line of LPC code goes through VL
#define VL(s) debug_message("VL " + (s))
// virtual epoch (must equal VH_T0 in harness/common/vh.h)
#define VT0 1000000000
#define VNOW (time() - VT0)
#endif
