// C11 registry: harness-level object ids -> objects, heart_beat scripts, parameters of the clone being created
mapping obs = ([]);
mapping names = ([]);
mapping scripts = ([]);
mixed *pending = 0;
void reg (string oid, object ob) { obs[oid] = ob; names[oid] = 1; }
object get (string oid) { return obs[oid]; }
int known (string oid) { return names[oid]; }
string oid_of (object ob) { foreach (string k, object o in obs) if (o == ob) return k; return "?"; }
void set_script (string oid, string key, string ops) { scripts[oid + " " + key] = ops; }
string script (string oid, string key) { return scripts[oid + " " + key]; }
void set_pending (string oid, int n) { pending = ({ oid, n }); }
mixed *take_pending () { mixed *p = pending; pending = 0; return p; }
