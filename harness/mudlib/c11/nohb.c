// C11 scripted object WITHOUT a heart_beat function (prog->heart_beat == -1)
inherit "/c11/base";
int nohb_marker () { return 1; }
