// C11 scripted object with a heart_beat function
inherit "/c11/base";
void heart_beat () { beat (); }
