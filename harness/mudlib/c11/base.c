// C11 scripted object (common part): set_heart_beat / query_heart_beat / heart_beats / destruct / clone / error
// driven by op strings.  Must not define heart_beat(): /c11/nohb inherits this file too.
#include "/include/vcommon.h"

string oid = "?";
int nb = 0;

void create () {
  mixed *p;
  seteuid (getuid ());
  if (clonep (this_object ())) {
    p = "/c11/reg"->take_pending ();
    if (p) {
      oid = p[0];
      "/c11/reg"->reg (oid, this_object ());
      set_heart_beat (p[1]);
    }
  }
}
void set_oid (string s) { oid = s; "/c11/reg"->reg (s, this_object ()); }
void do_shb (int n) { set_heart_beat (n); }
void move_into (object d) { move_object (d); }

mixed do_op (string s);

// destruct(carrier) in progress: the driver applies this in every inventory item before it removes the carrier from
// the heart-beat list; the script may touch any heart beat, including the dying carrier's ("wake on inventory change").
// No destructing operations here (restrict_destruct would refuse destruct of others); an uncaught error (err) leaves
// destruct_object: the carrier and the remaining items stay alive.
int move_or_destruct (object dest) {
  string me = oid;
  string s = "/c11/reg"->script (me, "md");
  object env = environment (this_object ());
  VL ("hook " + me + " " + (env ? "/c11/reg"->oid_of (env) : "?"));
  if (stringp (s))
    foreach (string op in explode (s, ";")) {
      string k = explode (op, ",")[0];
      if (k == "shb" || k == "q" || k == "clone" || k == "flag" || k == "hbs" || k == "err" || k == "cerr" || k == "dest"
          || k == "mv") do_op (op);
      if (!this_object ()) break;   // destructed itself (the only destruct restrict_destruct allows here)
    }
  if (!this_object ()) VL ("hookend " + me + " !gone");
  else if (environment (this_object ()) != env) VL ("hookend " + me + " !moved");
  else VL ("hookend " + me);
  return 0;   // not moved: the driver destructs this object
}

mixed do_op (string s);

// to_int() goes through atoi() and truncates to 32 bits: parse 64-bit decimal literals here
int parse_int (string s) {
  int i = 0, neg = 0, n = 0;
  if (strlen (s) && s[0] == '-') { neg = 1; i = 1; }
  for (; i < strlen (s); i++) n = n * 10 + (s[i] - '0');
  return neg ? -n : n;
}

void run (string s) {
  string me = oid;
  string *ops = explode (s, ";");
  int i;
  for (i = 0; i < sizeof (ops); i++) {
    do_op (ops[i]);
    if (!this_object ()) {
      // destructed itself: the script stops - except that the function still runs: its own set_heart_beat calls (zshb)
      // are made, and an error can be raised on the way out
      for (i++; i < sizeof (ops); i++) {
        if (ops[i] == "err") error ("boom " + me + "\n");
        if (ops[i][0..3] != "zshb") break;
        set_heart_beat (parse_int (explode (ops[i], ",")[1]));
        VL ("r zshb " + me + " " + explode (ops[i], ",")[1]);
      }
      return;
    }
  }
}

// call_out callback (scheduled by the harness command `cotick`): dispatched by call_heart_beat() -> call_out() after the round
void sched (string ops) { call_out ("co", 1, ops); }
void co (string ops) {
  string me = oid;
  VL ("cobegin " + me);
  run (ops);
  VL ("coend " + me);
}

void beat () {
  int ec = eval_cost ();            // first thing: how much evaluation cost is left at entry
  string me = oid;
  string s;
  int k = nb++;
  object tp = this_player ();
  VL ("beat " + me);
  // the context the driver set up for this call: living(), this_player(), evaluation cost untouched
  VL ("ctx " + me + " " + (living (this_object ()) ? "1" : "0") + " " + (tp ? "/c11/reg"->oid_of (tp) : "-") + " "
      + (max_eval_cost () - ec < 100 ? "full" : "low"));
  s = "/c11/reg"->script (me, "hb:" + k);
  if (!stringp (s)) s = "/c11/reg"->script (me, "hb:*");
  if (stringp (s)) run (s);
  VL ("beatend " + me);
}

mixed do_op (string s) {
  string *w = explode (s, ",");
  string me = oid;
  object ob;
  switch (w[0]) {
  case "shb":   // shb,<target>,<n>
    ob = "/c11/reg"->get (w[1]);
    if (!ob) { VL ("r shb " + me + " " + w[1] + " " + w[2] + " !dead"); break; }
    ob->do_shb (parse_int (w[2]));
    VL ("r shb " + me + " " + w[1] + " " + w[2] + " " + query_heart_beat (ob));
    break;
  case "q":
    ob = "/c11/reg"->get (w[1]);
    if (!ob) { VL ("r q " + me + " " + w[1] + " !dead"); break; }
    VL ("r q " + me + " " + w[1] + " " + query_heart_beat (ob));
    break;
  case "dest":
    ob = "/c11/reg"->get (w[1]);
    if (!ob || !clonep (ob)) { VL ("r dest " + me + " " + w[1] + " !none"); break; }
    destruct (ob);
    VL ("r dest " + me + " " + w[1]);
    break;
  case "clone": { // clone,<new oid>,<kind>,<n>
    int kind = to_int (w[2]) ? 1 : 0;
    if ("/c11/reg"->known (w[1])) { VL ("r clone " + me + " " + w[1] + " !dup"); break; }
    "/c11/reg"->set_pending (w[1], parse_int (w[3]));
    ob = new (kind ? "/c11/nohb" : "/c11/obj");
    VL ("r clone " + me + " " + w[1] + " " + kind + " " + w[3] + " " + query_heart_beat (ob));
    break;
  }
  case "take":   // take,<item>: the item moves into this object's inventory
    ob = "/c11/reg"->get (w[1]);
    if (ob && clonep (ob) && ob != this_object () && !environment (this_object ()) && !environment (ob)
        && !first_inventory (ob)) {
      ob->move_into (this_object ());
      VL ("r take " + me + " " + w[1]);
    } else VL ("r take " + me + " " + w[1] + " !none");
    break;
  case "err":
    error ("boom " + me + "\n");
    break;
  case "mv":      // mv,<dest>: this object moves (out of its carrier, if it has one) into dest
    ob = "/c11/reg"->get (w[1]);
    if (ob && clonep (ob) && clonep (this_object ()) && ob != this_object () && !environment (ob) && !first_inventory (this_object ())) {
      move_object (ob);
      VL ("r mv " + me + " " + w[1]);
    } else VL ("r mv " + me + " " + w[1] + " !none");
    break;
  case "zshb":    // zshb,<n>: set_heart_beat(n) in this object itself (no registry lookup, no query: also legal after destruct)
    set_heart_beat (parse_int (w[1]));
    VL ("r zshb " + me + " " + w[1]);
    break;
  case "cerr":    // the error is caught: error_handler leaves through its catch branch
    catch (error ("boom " + me + "\n"));
    break;
  case "reload":  // reload,<target>,<n>: reload_object(); create() of the target runs again and does set_heart_beat(n)
    ob = "/c11/reg"->get (w[1]);
    if (!ob || !clonep (ob)) { VL ("r reload " + me + " " + w[1] + " !none"); break; }
    "/c11/reg"->set_pending (w[1], parse_int (w[2]));
    reload_object (ob);
    VL ("r reload " + me + " " + w[1] + " " + w[2] + " " + query_heart_beat (ob));
    break;
  case "living":
    enable_commands ();
    VL ("r living " + me);
    break;
  case "rp":      // replace_program by the inherited program that has no heart_beat(); applied at the top of the backend loop
    if (!clonep (this_object ()) || !sizeof (inherit_list (this_object ()))) { VL ("r rp " + me + " !none"); break; }
    replace_program ("/c11/base");
    VL ("r rp " + me);
    break;
  case "burn": {  // use up evaluation cost
    int i, x = 0;
    for (i = 0; i < 400; i++) x += i;
    VL ("r burn " + me);
    break;
  }
  case "flag":
    uptime ();      // the harness' time(NULL) sets heart_beat_flag: the timer fired
    VL ("r flag " + me);
    break;
  case "hbs": {
    string t = "";
    foreach (object o in heart_beats ()) t += (t == "" ? "" : ",") + "/c11/reg"->oid_of (o);
    VL ("r hbs " + me + " " + (t == "" ? "-" : t));
    break;
  }
  default:
    VL ("badop " + s);
  }
  return 0;
}
