// C16 helper object with many variables (every fourth one static): w0 .. w23
#include "/include/vcommon.h"
mixed w0;
mixed w1;
mixed w2;
static mixed w3;
mixed w4;
mixed w5;
mixed w6;
static mixed w7;
mixed w8;
mixed w9;
mixed w10;
static mixed w11;
mixed w12;
mixed w13;
mixed w14;
static mixed w15;
mixed w16;
mixed w17;
mixed w18;
static mixed w19;
mixed w20;
mixed w21;
mixed w22;
static mixed w23;

void create () { seteuid (getuid ()); }
void set_oid (string s) { }
void setall (mixed *a) {
  w0 = a[0];
  w1 = a[1];
  w2 = a[2];
  w3 = a[3];
  w4 = a[4];
  w5 = a[5];
  w6 = a[6];
  w7 = a[7];
  w8 = a[8];
  w9 = a[9];
  w10 = a[10];
  w11 = a[11];
  w12 = a[12];
  w13 = a[13];
  w14 = a[14];
  w15 = a[15];
  w16 = a[16];
  w17 = a[17];
  w18 = a[18];
  w19 = a[19];
  w20 = a[20];
  w21 = a[21];
  w22 = a[22];
  w23 = a[23];
}
mixed *getv () { return ({ w0, w1, w2, w3, w4, w5, w6, w7, w8, w9, w10, w11, w12, w13, w14, w15, w16, w17, w18, w19, w20, w21, w22, w23 }); }
int so (string f, int z) { return save_object (f, z); }
int ro (string f, int nc) { return restore_object (f, nc); }
