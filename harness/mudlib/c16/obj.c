// C16 helper object: save_variable / restore_variable efuns and save_object / restore_object on a known
// variable layout:  vi (inherited), vis (inherited, static), va, vb, vs (static), vo (object reference), vc
#include "/include/vcommon.h"
inherit "/c16/base";

class pair { mixed x; mixed y; }

mixed va;
mixed vb;
static mixed vs;
object vo;
mixed vc;

void create () { seteuid (getuid ()); }
void set_oid (string s) { }
string sv (mixed v) { return save_variable (v); }
mixed rv (string s) { return restore_variable (s); }
void setv (mixed i, mixed a, mixed b, mixed s, mixed c) {
  set_base (i, s); va = a; vb = b; vs = s; vo = this_object (); vc = c;
}
mixed *getv () { return get_base () + ({ va, vb, vs, vo, vc }); }
int so (string f, int z) { return save_object (f, z); }
int ro (string f, int nc) { return restore_object (f, nc); }
mixed mk (mixed a, mixed b) { class pair p = new (class pair); p->x = a; p->y = b; return p; }
float big () { float x = 1.0e300; return x * x; }
