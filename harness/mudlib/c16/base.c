// C16: inherited part of the saved object (one ordinary and one static variable)
mixed vi;
static mixed vis;
void set_base (mixed a, mixed b) { vi = a; vis = b; }
mixed *get_base () { return ({ vi, vis }); }
