// C08 verification master: base policies + registry of the scripted objects (harness id -> object, name, scripts)
// + the top-level op interpreter + the LPC-visible probe.  Scripted objects reach it with master() (no name lookup,
// so the object hash chains are touched only by the operations under test).
#include "/master.c"

int nid = 2;
mapping obs = ([ ]);       // "o5" -> object
mapping rev = ([ ]);       // object -> "o5"
mapping names = ([ ]);     // "o5" -> "c08/b1#3"
mapping lnames = ([ ]);    // "o5" -> living name
mapping scripts = ([ ]);   // "o5:init" -> ({ ops, ops, ... })
int act_ret = 1;
object keep;
mixed *keepa = ({ 0 });
mapping keepm = ([ ]);

int next_id () { return nid++; }
void reg (string oid, object ob) { obs[oid] = ob; rev[ob] = oid; names[oid] = file_name (ob)[1..]; }
object get (string oid) { return obs[oid]; }
mapping tab () { return obs; }
int count () { return nid; }
string oid_of (object ob) {
  string s;
  if (ob == this_object ()) return "o1";
  if (file_name (ob) == "/simul_efun") return "o0";
  s = rev[ob];
  return stringp (s) ? s : "?" + file_name (ob);
}
void note_ln (string oid, string s) { lnames[oid] = s; }
void add_script (string key, string ops) {
  if (!arrayp (scripts[key])) scripts[key] = ({ });
  scripts[key] += ({ ops });
}
string next_script (string key) {
  string s;
  if (!arrayp (scripts[key]) || !sizeof (scripts[key])) return 0;
  s = scripts[key][0];
  scripts[key] = scripts[key][1..];
  return s;
}

string my_oid () { return "o1"; }
// the same reference in a global variable, an array and a mapping (scrub sites F_GLOBAL / F_INDEX)
void set_keep (object o) { keep = o; keepa = ({ o }); keepm = ([ "k" : o ]); }
object get_keep () { return keep; }
object get_keepa () { return keepa[0]; }
object get_keepm () { return keepm["k"]; }

string join_ids (int *a);
int *reg_ids (object *a);
mixed do_op (string s, mixed hookarg);
string live_ids () { string r = join_ids (reg_ids (objects ())); return r == "" ? "-" : r; }
// the master runs `ofilt` scripts too (objects(filter) issued from the top level)
void c08_run (string key, mixed arg) {
  string s = next_script ("o1:" + key);
  if (!stringp (s)) return;
  foreach (string op in explode (s, ";")) do_op (op, arg);
}
#include "/c08/ops.h"

void top (string op) { do_op (op, 0); }

string join_oids (mixed *a) {
  string r = "";
  int i;
  for (i = 0; i < sizeof (a); i++) r += (i ? "," : "") + (objectp (a[i]) ? oid_of (a[i]) : "0");
  return r;
}

int *reg_ids (object *a) {
  int *r = ({ });
  foreach (object o in a) {
    string s;
    if (!o || o == this_object () || file_name (o) == "/simul_efun") continue;
    s = rev[o];
    if (stringp (s)) r += ({ to_int (s[1..]) });
    else VL ("W unregistered-object-listed " + file_name (o));
  }
  return sort_array (r, 1);
}

string join_ids (int *a) {
  string r = "";
  int i;
  for (i = 0; i < sizeof (a); i++) r += (i ? "," : "") + "o" + a[i];
  return r;
}

void probe () {
  int i, n;
  for (i = 2; i < nid; i++) {
    string oid = "o" + i, p = "/" + names[oid], t, found, fl, walk;
    object ob, f, x;
    t = typeof (find_object (p));
    f = find_object (p);
    found = OID (f) + "/" + (t == "object" ? 1 : 0);
    ob = obs[oid];
    if (!ob) { VL ("P " + oid + " ref=0 find=" + found); continue; }
    fl = "-";
    if (stringp (lnames[oid])) fl = OID (find_living (lnames[oid]));
    walk = "";
    n = 0;
    for (x = first_inventory (ob); x && n < 100000; x = next_inventory (x), n++) walk += (n ? "," : "") + oid_of (x);
    VL ("P " + oid + " ref=" + oid_of (ob) + " find=" + found + " env=" + OID (environment (ob)) + " inv="
        + join_oids (all_inventory (ob)) + " walk=" + walk + " fl=" + fl);
  }
  VL ("P objects " + join_ids (reg_ids (objects ())));
  VL ("P livings " + join_ids (reg_ids (livings ())));
  VL ("P heartbeats " + join_ids (reg_ids (heart_beats ())));
}
