// C08 scripted object: create / init / move_or_destruct run scripts handed over by the harness (kept by the master,
// keyed by the object's harness id = creation order), and log every hook entry/exit.
#include "/include/vcommon.h"

string oid = "?";
int act_ret = 1;
object keep;
mixed *keepa = ({ 0 });
mapping keepm = ([ ]);

string my_oid () { return oid; }
// the same reference in a global variable, an array and a mapping (scrub sites F_GLOBAL / F_INDEX)
void set_keep (object o) { keep = o; keepa = ({ o }); keepm = ([ "k" : o ]); }
object get_keep () { return keep; }
object get_keepa () { return keepa[0]; }
object get_keepm () { return keepm["k"]; }

void c08_run (string key, mixed arg);
void run (string key, mixed arg);
#include "/c08/ops.h"

void c08_run (string key, mixed arg) { run (key, arg); }

void run (string key, mixed arg) {
  string s = master()->next_script (oid + ":" + key);
  if (!stringp (s)) return;
  foreach (string op in explode (s, ";")) {
    do_op (op, arg);
    if (!this_object ()) return;   // destructed: the script stops
  }
}

void create () {
  oid = "o" + master()->next_id ();
  master()->reg (oid, this_object ());
  seteuid (getuid ());
  VL ("new " + oid + " " + file_name (this_object ())[1..]);
  run ("create", 0);
  VL ("he " + oid + " create");
}

void init () {
  VL ("hb " + oid + " init " + OID (this_player ()));
  run ("init", 0);
  VL ("he " + oid + " init");
}

int move_or_destruct (object dest) {
  VL ("hb " + oid + " mod " + OID (dest));
  run ("mod", dest);
  VL ("he " + oid + " mod");
  return 0;
}

int act (string arg) {
  act_ret = 1;
  VL ("hb " + oid + " act " + OID (this_player ()));
  run ("act", 0);
  VL ("he " + oid + " act");
  return act_ret;
}
int x_ra (string verb) { return remove_action ("act", verb); }

// present() asks every member of an inventory; an object answers to its own harness id
int id (string s) {
  VL ("hb " + oid + " id 0");
  run ("id", 0);
  VL ("he " + oid + " id");
  return s == oid;
}

// driver-initiated call channel: the backend tick calls heart_beat() (call_function, no destructed test of its own)
void heart_beat () {
  VL ("hb " + oid + " hbeat 0");
  run ("hbeat", 0);
  VL ("he " + oid + " hbeat");
}
void x_hb (int on) { set_heart_beat (on); }

void x_aa (string verb) { add_action ("act", verb); }
int x_cmd (string verb) { return command (verb); }
void x_mv (object d) { move_object (d); }
object x_mvs (string p) { move_object (p); return environment (); }
void x_ec () { enable_commands (); }
void x_dc () { disable_commands (); }
void x_ln (string s) { set_living_name (s); }
