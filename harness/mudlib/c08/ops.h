// C08: the op interpreter shared by the scripted objects (/c08/obj.c) and the master (/c08/master.c, top level).
// Every result line is canonical output; formats are mirrored by lean/NV/C08/Model.lean (exec, .ops).
#ifndef C08_OPS_H
#define C08_OPS_H

#define OID(ob) ((ob) ? master()->oid_of(ob) : "0")
// a destructed object cannot call_other(): the result of an operation during which the executing object was
// destructed is reported as unknown
#define ROID(ob) (this_object () ? OID (ob) : "?")

// objects(filter): the driver walks obj_list and calls this function in the executing object for every object; the
// n-th call runs the n-th `ofilt` script of the executing object (it may destruct / move / create objects meanwhile)
int ofilt (object o) {
  VL ("hb " + my_oid () + " ofilt " + OID (o));
  c08_run ("ofilt", 0);
  VL ("he " + my_oid () + " ofilt");
  return 1;
}

string c08_list (mixed *a) {
  string r = "";
  int i;
  if (!arrayp (a)) return "!0";
  for (i = 0; i < sizeof (a); i++) r += (i ? "," : "") + (objectp (a[i]) ? OID (a[i]) : "0");
  return r == "" ? "-" : r;
}

mixed do_op (string s, mixed hookarg) {
  string *w = explode (s, ",");
  object a, d, ob;
  string t, p;
  mixed e;
  switch (w[0]) {
  case "obf":
    // objects() before, objects("ofilt") with the callbacks, objects() after (ids >= 2, sorted)
    VL ("obfb " + my_oid () + " " + master()->live_ids ());
    e = objects ("ofilt");
    VL ("r obf " + my_oid () + " " + (this_object () ? c08_list (e) : "?") + " " + master()->live_ids ());
    break;
  case "gh":
    // the object goes on running after its own destruct and calls one more efun in the same function
    d = (w[1] == "mv") ? master()->get (w[2]) : 0;
    VL ("deb " + my_oid ());
    destruct (this_object ());
    VL ("r de " + my_oid () + " ok");
    switch (w[1]) {
    case "ln": set_living_name (w[2]); break;
    case "ec": enable_commands (); break;
    case "aa": add_action ("act", w[2]); break;
    case "hbe": set_heart_beat (1); break;
    case "mv": if (objectp (d)) move_object (d); break;
    }
    VL ("r gh " + my_oid () + " " + w[1]);
    break;
  case "ret0":
    // the running action function returns 0 ("not my verb"): user_parser goes on with the next sentence
    act_ret = 0;
    break;
  case "ra":
    a = master()->get (w[1]);
    if (!a) { VL ("r ra " + w[1] + " " + w[2] + " !gone"); break; }
    VL ("r ra " + w[1] + " " + w[2] + " " + a->x_ra (w[2]));
    break;
  case "ct":
    // catch() around one op: a caught error must leave every guard as it was at the start of the catch
    VL ("ctb " + my_oid ());
    e = catch (do_op (implode (w[1..], ","), hookarg));
    VL ("r ct " + my_oid () + " " + (e ? 1 : 0));
    break;
  case "ld":
    p = "/c08/" + w[1];
    // typeof() sees the value the efun left on the stack (a local variable would already read as 0)
    t = typeof (d = load_object (p));
    ob = find_object (p);
    VL ("r ld c08/" + w[1] + " " + ROID (ob) + " " + (t == "object" ? 1 : 0) + " " + ROID (d));
    break;
  case "cl":
    ob = clone_object ("/c08/" + w[1]);
    VL ("r cl c08/" + w[1] + " " + ROID (ob));
    break;
  case "mv":
    a = master()->get (w[1]); d = master()->get (w[2]);
    if (!a || !d) { VL ("r mv " + w[1] + " " + w[2] + " !gone"); break; }
    VL ("mvb " + w[1] + " " + w[2]);
    a->x_mv (d);
    VL ("r mv " + w[1] + " " + w[2] + " ok");
    break;
  case "mvs":
    a = master()->get (w[1]);
    if (!a) { VL ("r mvs " + w[1] + " c08/" + w[2] + " !gone"); break; }
    VL ("mvsb " + w[1] + " c08/" + w[2]);
    ob = a->x_mvs ("/c08/" + w[2]);
    VL ("r mvs " + w[1] + " c08/" + w[2] + " ok " + ROID (ob));
    break;
  case "hbe":
  case "hbd":
    a = master()->get (w[1]);
    if (!a) { VL ("r " + w[0] + " " + w[1] + " !gone"); break; }
    a->x_hb (w[0] == "hbe");
    VL ("r " + w[0] + " " + w[1] + " ok");
    break;
  case "pr":
    a = master()->get (w[1]);
    if (!a) { VL ("r pr " + w[1] + " " + w[2] + " !gone"); break; }
    ob = present (w[2], a);
    VL ("r pr " + w[1] + " " + w[2] + " " + ROID (ob));
    break;
  case "fis":
    ob = first_inventory ("/c08/" + w[1]);
    VL ("r fis c08/" + w[1] + " " + ROID (ob));
    break;
  case "de":
    a = master()->get (w[1]);
    if (!a) { VL ("r de " + w[1] + " !gone"); break; }
    VL ("deb " + w[1]);
    destruct (a);
    VL ("r de " + w[1] + " ok");
    break;
  case "ec":
  case "dc":
    a = master()->get (w[1]);
    if (!a) { VL ("r " + w[0] + " " + w[1] + " !gone"); break; }
    if (w[0] == "ec") a->x_ec (); else a->x_dc ();
    VL ("r " + w[0] + " " + w[1] + " ok");
    break;
  case "ln":
    a = master()->get (w[1]);
    if (!a) { VL ("r ln " + w[1] + " " + w[2] + " !gone"); break; }
    a->x_ln (w[2]);
    master()->note_ln (w[1], w[2]);
    VL ("r ln " + w[1] + " " + w[2] + " ok");
    break;
  case "fo":
    p = "/c08/" + w[1];
    t = typeof (find_object (p));
    ob = find_object (p);
    VL ("r fo c08/" + w[1] + " " + OID (ob) + " " + (t == "object" ? 1 : 0));
    break;
  case "fl":
    t = typeof (find_living (w[1]));
    ob = find_living (w[1]);
    VL ("r fl " + w[1] + " " + OID (ob) + " " + (t == "object" ? 1 : 0));
    break;
  case "aa":
    a = master()->get (w[1]);
    if (!a) { VL ("r aa " + w[1] + " " + w[2] + " !gone"); break; }
    a->x_aa (w[2]);
    VL ("r aa " + w[1] + " " + w[2] + " ok");
    break;
  case "cmd":
    a = master()->get (w[1]);
    if (!a) { VL ("r cmd " + w[1] + " " + w[2] + " !gone"); break; }
    VL ("r cmd " + w[1] + " " + w[2] + " " + (a->x_cmd (w[2]) ? 1 : 0));
    break;
  case "kp":
    a = master()->get (w[1]);
    if (!a) { VL ("r kp " + my_oid () + " " + w[1] + " !gone"); break; }
    set_keep (a);
    VL ("r kp " + my_oid () + " " + w[1] + " ok");
    break;
  case "rd":
    VL ("r rd " + my_oid () + " " + OID (get_keep ()) + " " + OID (get_keepa ()) + " " + OID (get_keepm ()));
    break;
  case "err":
    error ("boom\n");
    break;
  case "mvarg":
    if (objectp (hookarg)) {
      p = OID (hookarg);
      VL ("mvb " + my_oid () + " " + p);
      move_object (hookarg);
      VL ("r mv " + my_oid () + " " + p + " ok");
    } else
      VL ("r mvarg " + my_oid () + " 0");
    break;
  case "nop":
    break;
  default:
    VL ("badop " + s);
  }
  return 0;
}

#endif
