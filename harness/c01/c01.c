/* C01 harness (system style, ASan+UBSan): real opcodes / efuns / error() executed on operands chosen by the plugin.
 *
 *   idx <op> <kind> <size> <i> <j> <r>    apply /c01/ops->op_<op>(container, i, j, rhs)
 *        kind: arr|str|buf (container of <size> elements with position-determined content), map, zero, int
 *        r:    lindex/lrindex/sindex/srindex/linc: the int that is stored;   range lvalues: size of the rhs (same kind)
 *        prints  r <summary of the returned value>   |   err <message> (by the master) + r !err
 *   errlen <n> <nl>                        real error("%s", <n bytes>[+ "\n"]) inside an error context
 *   badarg <hex>                           bad_argument() on a string svalue holding these bytes (via F_EFUN1 dispatch:
 *                                          /c01/ops->bad_arg(s) calls an int-only efun on it)
 *   prog <name> <hex source>               write <mudlib>/c01/gen/<name>.c
 *   run <name> <fn>                        load the object and apply fn; prints fz <name> <fn> ok|err|nofn|noload
 *   stackprog <depth> <nargs>              recursion <depth> deep, each level passing <nargs> arguments
 */
#include "vh.h"
#include "lpc/buffer.h"
#include "src/interpret.h"
#include <sys/stat.h>
#include <unistd.h>

static object_t *ops_ob = 0;

static unsigned long long fnv_step (unsigned long long h, unsigned long long v)
{
  h ^= v;
  h *= 1099511628211ULL;
  return h;
}

#define FNV0 1469598103934665603ULL

/* content functions (the Lean model has the same ones) */
static long long arr_elem (int rhs, long k) { return rhs ? 1000000 + k : k; }
static int str_elem (int rhs, long k) { return (rhs ? 'A' : 'a') + (int) (k % 26); }
static int buf_elem (int rhs, long k) { return rhs ? (int) ((k * 13 + 5) % 256) : (int) ((k * 7 + 1) % 256); }

static int push_container (const char *kind, long size, int rhs)
{
  if (!strcmp (kind, "arr"))
    {
      array_t *a = allocate_empty_array (size);
      for (long k = 0; k < size; k++)
        {
          a->item[k].type = T_NUMBER;
          a->item[k].subtype = 0;
          a->item[k].u.number = arr_elem (rhs, k);
        }
      push_refed_array (a);
      return 1;
    }
  if (!strcmp (kind, "aarr"))
    {
      /* array whose elements are reference counted values: one-element arrays ({ code }) */
      array_t *a = allocate_empty_array (size);
      for (long k = 0; k < size; k++)
        {
          array_t *e = allocate_empty_array (1);
          e->item[0].type = T_NUMBER;
          e->item[0].subtype = 0;
          e->item[0].u.number = arr_elem (rhs, k);
          a->item[k].type = T_ARRAY;
          a->item[k].u.arr = e;
        }
      push_refed_array (a);
      return 1;
    }
  if (!strcmp (kind, "str"))
    {
      char *s = new_string (size, "c01");
      for (long k = 0; k < size; k++)
        s[k] = (char) str_elem (rhs, k);
      s[size] = 0;
      push_malloced_string (s);
      return 1;
    }
  if (!strcmp (kind, "buf"))
    {
      buffer_t *b = allocate_buffer (size);
      for (long k = 0; k < (long) b->size; k++)
        b->item[k] = (unsigned char) buf_elem (rhs, k);
      push_refed_buffer (b);
      return 1;
    }
  if (!strcmp (kind, "map"))
    {
      mapping_t *m = allocate_mapping (size > 0 ? (int) size : 1);
      for (long k = 0; k < size; k++)
        {
          svalue_t key, *v;
          key.type = T_NUMBER;
          key.subtype = 0;
          key.u.number = k;
          v = find_for_insert (m, &key, 1);
          if (v)
            {
              v->type = T_NUMBER;
              v->subtype = 0;
              v->u.number = 500 + k;
            }
        }
      push_refed_mapping (m);
      return 1;
    }
  if (!strcmp (kind, "zero"))
    {
      push_number (0);
      return 1;
    }
  if (!strcmp (kind, "int"))
    {
      push_number (size);
      return 1;
    }
  return 0;
}

static void summarize (char *out, size_t n, svalue_t * v)
{
  unsigned long long h = FNV0;
  char head[256] = "";
  size_t hl = 0;
  long len = 0;
  const char *k = "other";
  switch (v->type)
    {
    case T_NUMBER:
      snprintf (out, n, "i %lld", (long long) v->u.number);
      return;
    case T_ARRAY:
      k = "arr";
      len = v->u.arr->size;
      for (long i = 0; i < len; i++)
        {
          svalue_t *it = &v->u.arr->item[i];
          long long e = it->type == T_NUMBER ? (long long) it->u.number :
            (it->type == T_ARRAY && it->u.arr->size == 1 && it->u.arr->item[0].type == T_NUMBER) ? (long long) it->u.arr->item[0].u.number : -77;
          h = fnv_step (h, (unsigned long long) e);
          if (i < 6 && hl < sizeof head - 32)
            hl += snprintf (head + hl, sizeof head - hl, "%s%lld", i ? "," : "", e);
        }
      break;
    case T_STRING:
      k = "str";
      len = (long) strlen (v->u.string);
      for (long i = 0; i < len; i++)
        {
          int e = (unsigned char) v->u.string[i];
          h = fnv_step (h, e);
          if (i < 6 && hl < sizeof head - 32)
            hl += snprintf (head + hl, sizeof head - hl, "%s%d", i ? "," : "", e);
        }
      break;
    case T_BUFFER:
      k = "buf";
      len = v->u.buf->size;
      for (long i = 0; i < len; i++)
        {
          int e = v->u.buf->item[i];
          h = fnv_step (h, e);
          if (i < 6 && hl < sizeof head - 32)
            hl += snprintf (head + hl, sizeof head - hl, "%s%d", i ? "," : "", e);
        }
      break;
    case T_MAPPING:
      snprintf (out, n, "map %d", (int) v->u.map->count);
      return;
    default:
      snprintf (out, n, "other");
      return;
    }
  snprintf (out, n, "%s %ld %llu [%s]", k, len, h, head);
}

/* apply fn of ob to the nargs values already pushed; 0 ok, 1 error, 2 no function */
static int apply_pushed (object_t * ob, const char *fn, int nargs, char *res, size_t nres)
{
  error_context_t econ;
  volatile int rc = 0;
  svalue_t *ret;
  char *shared = make_shared_string (fn);
  svalue_t *base = sp - nargs;
  if (!save_context (&econ))
    return 1;
  /* save_context recorded sp including the arguments; on error restore_context pops to that level, so
     the arguments are released by us afterwards */
  if (!setjmp (econ.context))
    {
      eval_cost = CONFIG_INT (__MAX_EVAL_COST__);
      ret = apply (shared, ob, nargs, ORIGIN_DRIVER);
      if (!ret)
        rc = 2;
      else if (res)
        summarize (res, nres, ret);
      pop_context (&econ);
    }
  else
    {
      restore_context (&econ);
      pop_context (&econ);
      rc = 1;
      while (sp > base)
        pop_stack ();
    }
  free_string (shared);
  return rc;
}

static object_t *need_ops (void)
{
  if (!ops_ob)
    {
      error_context_t econ;
      save_context (&econ);
      if (!setjmp (econ.context))
        {
          eval_cost = CONFIG_INT (__MAX_EVAL_COST__);
          ops_ob = load_object ("/c01/ops", 0);
          pop_context (&econ);
        }
      else
        {
          restore_context (&econ);
          pop_context (&econ);
        }
      if (ops_ob)
        add_ref (ops_ob, "c01");
    }
  return ops_ob;
}

static int unhex (const char *h, char *out, size_t cap)
{
  size_t n = 0;
  while (h[0] && h[1] && n + 1 < cap)
    {
      unsigned v;
      sscanf (h, "%2x", &v);
      out[n++] = (char) v;
      h += 2;
    }
  out[n] = 0;
  return (int) n;
}

static int c01_cmd (char *line)
{
  static int quiet = 0;
  char copy[1 << 16];
  if (!quiet)
    {
      /* we are in the per-case child: efuns such as write() print to stdout, which is the case protocol */
      quiet = 1;
      fflush (stdout);
      freopen ("/dev/null", "w", stdout);
      /* programs of earlier cases must not be loadable: a replay has to carry its own `prog` line */
      system ("rm -rf c01/gen");
    }
  char *tok[16];
  char res[1024];
  if (!strncmp (line, "prog ", 5))
    {
      /* prog <name> <hex> : the source may be long, so no token copy */
      char name[64];
      const char *p = line + 5;
      int k = 0;
      while (*p && *p != ' ' && k < 60)
        name[k++] = *p++;
      name[k] = 0;
      while (*p == ' ')
        p++;
      size_t hl = strlen (p);
      char *src = (char *) malloc (hl / 2 + 2);
      unhex (p, src, hl / 2 + 2);
      char path[600];
      mkdir ("c01/gen", 0755);
      snprintf (path, sizeof path, "c01/gen/%s.c", name);
      FILE *f = fopen (path, "w");
      if (f)
        {
          fputs (src, f);
          fclose (f);
        }
      free (src);
      return 1;
    }
  snprintf (copy, sizeof copy, "%s", line);
  int n = vh_split (copy, tok, 16);
  if (n == 0)
    return 0;
  if (!strcmp (tok[0], "preload") && n == 2)
    {
      /* load a generated program before the limits are lowered (the compiler allocates too) */
      char path[128];
      error_context_t econ;
      snprintf (path, sizeof path, "/c01/gen/%s", tok[1]);
      save_context (&econ);
      if (!setjmp (econ.context))
        {
          eval_cost = CONFIG_INT (__MAX_EVAL_COST__);
          if (!find_object_by_name (path))
            load_object (path, 0);
          pop_context (&econ);
        }
      else
        {
          restore_context (&econ);
          pop_context (&econ);
        }
      return 1;
    }
  if (!strcmp (tok[0], "cfglim") && n == 3)
    {
      /* limit-edge family: lower a configured limit for this case (by name, not by config index) */
      static const struct { const char *name; int idx; } lim[] = {
        { "MaxArraySize", __MAX_ARRAY_SIZE__ }, { "MaxMappingSize", __MAX_MAPPING_SIZE__ },
        { "MaxBufferSize", __MAX_BUFFER_SIZE__ }, { "MaxStringLength", __MAX_STRING_LENGTH__ },
        { "MaxBitfieldBits", __MAX_BITFIELD_BITS__ }, { "MaxByteTransfer", __MAX_BYTE_TRANSFER__ },
        { "MaxReadFileSize", __MAX_READ_FILE_SIZE__ }, { "MaxEvaluationCost", __MAX_EVAL_COST__ },
      };
      for (unsigned k = 0; k < sizeof lim / sizeof lim[0]; k++)
        if (!strcmp (tok[1], lim[k].name))
          {
            CONFIG_INT (lim[k].idx) = atoi (tok[2]);
            return 1;
          }
      vh_out ("badcmd %s", line);
      return 1;
    }
  if (!strcmp (tok[0], "expl") && n == 4)
    {
      /* unit-style: the real explode_string() on "x,x,...,x" (d delimiters; tail 0: the string ends with the
         delimiter) under MaxArraySize = max; prints the size of the result and the number of slots filled */
      int max = atoi (tok[1]), d = atoi (tok[2]), tail = atoi (tok[3]);
      size_t cap = 2 * (size_t) d + 4, len = 0;
      char *str = (char *) malloc (cap);
      error_context_t econ;
      str[len++] = 'x';
      for (int k = 0; k < d; k++)
        {
          str[len++] = ',';
          if (k < d - 1 || tail)
            str[len++] = 'x';
        }
      str[len] = 0;
      CONFIG_INT (__MAX_ARRAY_SIZE__) = max;
      save_context (&econ);
      if (!setjmp (econ.context))
        {
          array_t *a = explode_string (str, len, ",", 1);
          int filled = 0;
          for (int k = 0; k < a->size; k++)
            if (a->item[k].type == T_STRING)
              filled++;
          vh_out ("r expl size=%d filled=%d", (int) a->size, filled);
          free_array (a);
          pop_context (&econ);
        }
      else
        {
          restore_context (&econ);
          pop_context (&econ);
          vh_out ("r expl !err");
        }
      free (str);
      return 1;
    }
  if (!strcmp (tok[0], "holder-expect"))
    return 1;			/* annotation for the model: number of error-path tests of the next program */
  if (!strcmp (tok[0], "reent-expect"))
    return 1;			/* annotation for the model: number of re-entrancy tests of the next program */
  if (!strcmp (tok[0], "expect-abort"))
    return 1;			/* annotation for the model (open known findings): no effect here */
  if (!strcmp (tok[0], "idx") && n == 7)
    {
      object_t *ob = need_ops ();
      char fn[64];
      const char *op = tok[1], *kind = tok[2];
      long size = atol (tok[3]);
      long long i = strtoll (tok[4], 0, 10), j = strtoll (tok[5], 0, 10), r = strtoll (tok[6], 0, 10);
      int range_lv = (op[0] == 'l' && strcmp (op, "lindex") && strcmp (op, "lrindex") && strcmp (op, "linc"))
        || (op[0] == 'a' && op[1] == 'l');
      if (!ob)
        {
          vh_out ("r !noops");
          return 1;
        }
      snprintf (fn, sizeof fn, "op_%s", op);
      {
        /* building the operands can itself raise (size limits) */
        error_context_t econ;
        volatile int built = 0;
        save_context (&econ);
        if (!setjmp (econ.context))
          {
            if (!push_container (kind, size, 0))
              push_number (0);
            push_number (i);
            if (op[0] == 't')
              {
                /* operations on a temporary: the LPC side indexes (c + j), a fresh value with one reference */
                if (!push_container (kind, 0, 0))
                  push_number (0);
              }
            else
              push_number (j);
            if (range_lv)
              {
                if (!push_container (kind, (long) r, 1))
                  push_number (r);
              }
            else
              push_number (r);
            built = 1;
            pop_context (&econ);
          }
        else
          {
            restore_context (&econ);
            pop_context (&econ);
          }
        if (!built)
          {
            vh_out ("r !build");
            return 1;
          }
      }
      int rc = apply_pushed (ob, fn, 4, res, sizeof res);
      if (rc == 1)
        vh_out ("r !err");
      else if (rc == 2)
        vh_out ("r !nofn");
      else
        vh_out ("r %s", res);
      return 1;
    }
  if (!strcmp (tok[0], "errlen") && n == 3)
    {
      long len = atol (tok[1]);
      int nl = atoi (tok[2]);
      char *s = (char *) malloc (len + 2);
      error_context_t econ;
      for (long k = 0; k < len; k++)
        s[k] = 'a' + (char) (k % 26);
      if (nl && len > 0)
        s[len - 1] = '\n';
      s[len] = 0;
      save_context (&econ);
      if (!setjmp (econ.context))
        {
          error ("%s", s);
          pop_context (&econ);
        }
      else
        {
          restore_context (&econ);
          pop_context (&econ);
        }
      free (s);
      vh_out ("r errlen done");
      return 1;
    }
  if (!strcmp (tok[0], "badarg") && n == 2)
    {
      object_t *ob = need_ops ();
      char buf[4096];
      if (!ob)
        return 1;
      unhex (tok[1], buf, sizeof buf);
      copy_and_push_string (buf);
      int rc = apply_pushed (ob, "bad_arg", 1, res, sizeof res);
      vh_out ("r badarg %s", rc == 1 ? "!err" : rc == 2 ? "!nofn" : res);
      return 1;
    }
  if (!strcmp (tok[0], "run") && n == 3)
    {
      char path[128];
      error_context_t econ;
      object_t *volatile ob = 0;
      snprintf (path, sizeof path, "/c01/gen/%s", tok[1]);
      save_context (&econ);
      if (!setjmp (econ.context))
        {
          eval_cost = CONFIG_INT (__MAX_EVAL_COST__);
          ob = find_object_by_name (path);
          if (!ob)
            ob = load_object (path, 0);
          pop_context (&econ);
        }
      else
        {
          restore_context (&econ);
          pop_context (&econ);
          ob = 0;
        }
      if (!ob)
        {
          vh_out ("fz %s %s noload", tok[1], tok[2]);
          return 1;
        }
      int rc = apply_pushed (ob, tok[2], 0, res, sizeof res);
      vh_out ("fz %s %s %s", tok[1], tok[2], rc == 0 ? "ok" : rc == 1 ? "err" : "nofn");
      return 1;
    }
  if (!strcmp (tok[0], "stackprog") && (n == 3 || n == 4))
    {
      int nlocals = n == 4 ? atoi (tok[3]) : 0;
      /* rec(d, a1..aN) calls itself d times passing N arguments: unchecked argument pushes per level */
      int depth = atoi (tok[1]), nargs = atoi (tok[2]);
      char *src = (char *) malloc (64 * (nargs + 4) + 2048), *o = src;
      char path[128];
      error_context_t econ;
      object_t *volatile ob = 0;
      if (nargs < 0 || nargs > 200)
        nargs = 0;
      o += sprintf (o, "void create () { seteuid (getuid ()); }\nint rec (int d");
      for (int k = 0; k < nargs; k++)
        o += sprintf (o, ", int a%d", k);
      o += sprintf (o, ") {\n");
      for (int k = 0; k < nlocals && k < 64; k++)
        o += sprintf (o, "  int l%d;\n", k);	/* locals: push_undefineds (checked) */
      o += sprintf (o, "  if (d <= 0) return 0;\n  return 1 + rec (d - 1");
      for (int k = 0; k < nargs; k++)
        o += sprintf (o, ", a%d", k);	/* locals: F_LOCAL / F_PUSH, the unchecked pushes */
      o += sprintf (o, ");\n}\nint go () { int x; x = 7; return rec (%d", depth);
      for (int k = 0; k < nargs; k++)
        o += sprintf (o, ", x");
      o += sprintf (o, "); }\n");
      mkdir ("c01/gen", 0755);
      snprintf (path, sizeof path, "c01/gen/stack_%d_%d_%d.c", depth, nargs, nlocals);
      FILE *f = fopen (path, "w");
      if (f)
        {
          fputs (src, f);
          fclose (f);
        }
      free (src);
      snprintf (path, sizeof path, "/c01/gen/stack_%d_%d_%d", depth, nargs, nlocals);
      save_context (&econ);
      if (!setjmp (econ.context))
        {
          eval_cost = CONFIG_INT (__MAX_EVAL_COST__);
          ob = load_object (path, 0);
          pop_context (&econ);
        }
      else
        {
          restore_context (&econ);
          pop_context (&econ);
          ob = 0;
        }
      if (!ob)
        {
          vh_out ("r stackprog noload");
          return 1;
        }
      vh_out ("stack base %ld size %d", (long) (sp - start_of_stack + 1), CONFIG_INT (__EVALUATOR_STACK_SIZE__));
      int rc = apply_pushed (ob, "go", 0, res, sizeof res);
      vh_out ("r stackprog %s", rc == 1 ? "!err" : rc == 2 ? "!nofn" : res);
      return 1;
    }
  return 0;
}

int main (int argc, char **argv)
{
  return vh_main (argc, argv, c01_cmd);
}
