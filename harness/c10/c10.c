/* C10 harness: generic commands + `adv <dt>` (current_time += dt) + `sweep` = the real call_out()
 * of lib/efuns/call_out.c, exactly as backend.c:call_heart_beat invokes it after updating current_time */
#include "vh.h"
#include "lib/efuns/call_out.h"

#ifdef NEOLITH_VERIF
extern void verif_call_out_set_unique (int n);   /* verif hook in lib/efuns/call_out.c */
#endif

static int c10_cmd (char *line)
{
  if (!strncmp (line, "setuniq ", 8))
    {
      /* advance the serial number of call_out handles (never lowers it): reaches the end of the int range */
#ifdef NEOLITH_VERIF
      verif_call_out_set_unique (atoi (line + 8));
#else
      vh_out ("setuniq !nohook");
#endif
      return 1;
    }
  if (!strcmp (line, "sweep"))
    {
      vh_out ("%ld tickbegin", (long) (current_time - VH_T0));
      eval_cost = CONFIG_INT (__MAX_EVAL_COST__);
      call_out ();
      vh_out ("%ld tickend", (long) (current_time - VH_T0));
      return 1;
    }
  if (!strncmp (line, "adv ", 4))
    {
      current_time += atol (line + 4);
      return 1;
    }
  if (!strncmp (line, "gop ", 4))
    {
      /* gop <giver> <oid> <op>: apply do_op with command_giver = <giver> (this_player() of the apply),
       * like a command typed by a player; exercises THIS_PLAYER_IN_CALL_OUT in new_call_out()/call_out() */
      char *tok[4];
      char buf[4096];
      snprintf (buf, sizeof buf, "%s", line);
      if (vh_split (buf, tok, 4) != 4)
        return 0;
      object_t *g = vh_obj (tok[1]);
      object_t *ob = vh_obj (tok[2]);
      if (!ob)
        {
          vh_out ("r %s do_op !noobj", tok[2]);
          return 1;
        }
      if (ob->flags & O_DESTRUCTED)
        {
          vh_out ("r %s do_op !destructed", tok[2]);
          return 1;
        }
      save_command_giver ((g && !(g->flags & O_DESTRUCTED)) ? g : 0);
      int rc = vh_apply_str (ob, "do_op", 1, &tok[3], 0, 0);
      restore_command_giver ();
      if (rc == 1)
        vh_out ("r %s do_op !err", tok[2]);
      return 1;
    }
  return 0;
}

int main (int argc, char **argv)
{
  return vh_main (argc, argv, c10_cmd);
}
