/* C10 harness: generic commands + `adv <dt>` (current_time += dt) + `sweep` = the real call_out()
 * of lib/efuns/call_out.c, exactly as backend.c:call_heart_beat invokes it after updating current_time */
#include "vh.h"
#include "lib/efuns/call_out.h"

static int c10_cmd (char *line)
{
  if (!strcmp (line, "sweep"))
    {
      vh_out ("%ld tickbegin", (long) (current_time - VH_T0));
      eval_cost = CONFIG_INT (__MAX_EVAL_COST__);
      call_out ();
      vh_out ("%ld tickend", (long) (current_time - VH_T0));
      return 1;
    }
  if (!strncmp (line, "adv ", 4))
    {
      current_time += atol (line + 4);
      return 1;
    }
  return 0;
}

int main (int argc, char **argv)
{
  return vh_main (argc, argv, c10_cmd);
}
