/* C19 harness, second translation unit: lib/async/async_runtime_poll.c COMPILED ON LINUX.
 *
 * The poll back end is guarded by `#if !defined(_WIN32) && !defined(__linux__)`, so a Linux build of the driver
 * never compiles it.  Here every system header it needs is included FIRST (their include guards make the later
 * `#include`s no-ops), then `__linux__` is undefined and the unmodified source file is included; the public
 * functions are renamed `pollrt_*` by macros so that they do not collide with the epoll back end linked from
 * libasync.  No source change, no hook: the code that runs is the repository's file, byte for byte.
 *
 * c19.c reaches these functions through its `RT` table when a case starts with the line `#poll`.              */
#include <config.h>

#include <poll.h>
#include <sys/stat.h>
#include <sys/time.h>
#include <sys/types.h>
#include <unistd.h>
#include <fcntl.h>
#include <stdlib.h>
#include <string.h>
#include <stdint.h>
#include <stddef.h>
#include <stdbool.h>
#include <errno.h>
#include <pthread.h>

#define async_runtime_init pollrt_init
#define async_runtime_deinit pollrt_deinit
#define async_runtime_add pollrt_add
#define async_runtime_modify pollrt_modify
#define async_runtime_remove pollrt_remove
#define async_runtime_wakeup pollrt_wakeup
#define async_runtime_wait pollrt_wait
#define async_runtime_post_completion pollrt_post_completion
#define async_runtime_post_read pollrt_post_read
#define async_runtime_post_write pollrt_post_write
#define async_runtime_add_console pollrt_add_console
#define async_runtime_get_console_type pollrt_get_console_type
#define async_runtime_get_event_loop_handle pollrt_get_event_loop_handle

#include "async/async_runtime.h"

#undef __linux__
#include "lib/async/async_runtime_poll.c"

/* 1 when the file really produced code (the guard was passed) */
int pollrt_compiled (void)
{
#ifdef INITIAL_CAPACITY
  return 1;
#else
  return 0;
#endif
}

/* write end of the doorbell pipe (the harness puts seeded jitter behind the producers' doorbell write) */
int pollrt_write_fd (async_runtime_t * runtime)
{
  return runtime ? runtime->notify_pipe[1] : -1;
}
