/* C19 harness: the real lib/async event loop (epoll back end), async_queue, async_worker and lib/port timer,
 * driven (a) by sequentialised schedules - every case line is ONE real call made by the controlling thread,
 * the worker thread is moved through the H4 yield points - and (b) by real multi-thread runs (`mt ...`) whose
 * verdict line is deterministic when the property holds.  The LPC driver is not initialised.
 *
 * Output never contains raw times: only classes (`within` / `overran`, `some` / `none`).
 * Built twice: ASan+UBSan (correspondence) and ThreadSanitizer (cases that start with the line `#tsan`);
 * the parent turns ThreadSanitizer reports of a case into canonical `race <function>` lines.
 */
#ifdef HAVE_CONFIG_H
#include <config.h>
#endif
#include <stdio.h>
#include <stdlib.h>
#include <string.h>
#include <stdint.h>
#include <stdarg.h>
#include <unistd.h>
#include <fcntl.h>
#include <signal.h>
#include <errno.h>
#include <time.h>
#include <sched.h>
#include <pthread.h>
#include <semaphore.h>
#include <sys/time.h>
#include <sys/wait.h>
#include <sys/syscall.h>
#include <dlfcn.h>

/* unit style: the queue's ring indices are part of the canonical trace */
#include "lib/async/async_queue.c"
#include "async/async_runtime.h"
#include "async/async_worker.h"
#include "port/timer.h"
#include "async/console_worker.h"

#ifdef NEOLITH_VERIF
extern void (*verif_async_yield) (int point, void *worker);
#endif

#define LIVE_MS 60000
#define TICK_MS 4000		/* liveness bound for a due timer tick (waited for at most once per case) */
#define MT_LIVE_MS 30000	/* liveness bound of a multi-thread run (they take well under a second) */		/* liveness bound of every wait-for-condition (never a verdict by itself) */
#define CLEAR_LIVE_MS 15000	/* liveness bound for "the clear released the blocked writer" */
#define POLL_MS 10		/* poll interval of the timed join (async_worker_pthread.c) */

/* Timing rules of this harness (the check runs on busy machines):
 *  - nothing is decided by a fixed sleep: the harness waits for the condition, LIVE_MS is only a liveness bound;
 *  - the timed join is judged by COUNTING its nanosleep() calls (interposed below): the model proves
 *    sleeps <= ceil(t/10); wall-clock time is not used;
 *  - `overran` means: did not come back while a watchdog running under the same load made a wide multiple of
 *    the proved number of 10 ms sleeps (join), or: came back later than 3 intervals + 5 s on a machine that at
 *    that moment was measured NOT to be slow (timer stop). */

static FILE *out;

static void emit (const char *fmt, ...)
{
  va_list ap;
  va_start (ap, fmt);
  vfprintf (out, fmt, ap);
  va_end (ap);
  fputc ('\n', out);
  fflush (out);
}

static long now_ms (void)
{
  struct timespec ts;
  clock_gettime (CLOCK_MONOTONIC, &ts);
  return ts.tv_sec * 1000L + ts.tv_nsec / 1000000L;
}

static void msleep (long ms)
{
  struct timespec ts = { ms / 1000, (ms % 1000) * 1000000L };
  while (nanosleep (&ts, &ts) < 0 && errno == EINTR)
    ;
}

/* wait until *flag becomes non-zero, at most ms; returns 1 when it did */
static int wait_flag (volatile int *flag, long ms)
{
  long end = now_ms () + ms;
  while (!__atomic_load_n (flag, __ATOMIC_ACQUIRE))
    {
      if (now_ms () > end)
        return 0;
      usleep (200);
    }
  return 1;
}

/* libc interposition: nanosleep() calls of the thread inside async_worker_join are counted */
static __thread int *sleep_counter;

int nanosleep (const struct timespec *req, struct timespec *rem)
{
  int e;
  if (sleep_counter)
    (*sleep_counter)++;
  e = clock_nanosleep (CLOCK_MONOTONIC, 0, req, rem);
  if (e)
    {
      errno = e;
      return -1;
    }
  return 0;
}

/* how slow is the machine right now: time of 20 sleeps of 10 ms, in ms (nominal 200) */
static long load_probe_ms (void)
{
  long t0 = now_ms ();
  for (int i = 0; i < 20; i++)
    msleep (10);
  return now_ms () - t0;
}

/* a completed call took `el` ms; proved bound `bound` ms.  late only with a wide margin on a machine that is not slow */
static int came_back_late (long el, long bound)
{
  if (el <= 3 * bound + 5000)
    return 0;
  return load_probe_ms () < 600;
}

static uint64_t rng_next (uint64_t * s)
{
  *s += 0x9E3779B97F4A7C15ULL;
  uint64_t z = *s;
  z = (z ^ (z >> 30)) * 0xBF58476D1CE4E5B9ULL;
  z = (z ^ (z >> 27)) * 0x94D049BB133111EBULL;
  return z ^ (z >> 31);
}

static void rnd_yield (uint64_t * s)
{
  switch (rng_next (s) % 8)
    {
    case 0:
      sched_yield ();
      break;
    case 1:
      usleep (rng_next (s) % 200);
      break;
    case 2:
      for (volatile int i = 0; i < (int) (rng_next (s) % 2000); i++)
        ;
      break;
    default:
      break;
    }
}

/* ---- event loop ----------------------------------------------------------------------------------------- */

static async_runtime_t *rt;

/* back end selection: a case whose first line is `#poll` runs lib/async/async_runtime_poll.c (compiled on Linux by
 * c19poll.c, functions renamed pollrt_*) instead of the epoll back end; every command and every verdict is the same */
extern async_runtime_t *pollrt_init (void);
extern int pollrt_wakeup (async_runtime_t *);
extern int pollrt_wait (async_runtime_t *, io_event_t *, int, struct timeval *);
extern int pollrt_post_completion (async_runtime_t *, uintptr_t, uintptr_t);
extern int pollrt_get_event_loop_handle (async_runtime_t *);
extern int pollrt_write_fd (async_runtime_t *);
extern int pollrt_compiled (void);
static int use_poll;

static int RT_wait (async_runtime_t * r, io_event_t * ev, int max, struct timeval *tv)
{
  return use_poll ? pollrt_wait (r, ev, max, tv) : async_runtime_wait (r, ev, max, tv);
}

static int RT_post (async_runtime_t * r, uintptr_t k, uintptr_t d)
{
  return use_poll ? pollrt_post_completion (r, k, d) : async_runtime_post_completion (r, k, d);
}

static int RT_wakeup (async_runtime_t * r)
{
  return use_poll ? pollrt_wakeup (r) : async_runtime_wakeup (r);
}

static async_runtime_t *the_rt (void)
{
  if (!rt)
    rt = use_poll ? pollrt_init () : async_runtime_init ();
  return rt;
}

static int gate_fd = -1;	/* the doorbell as the waiting thread reads it */
static int gate_wfd = -1;	/* the doorbell as the producers write it (the same eventfd / the other end of the pipe) */

static void set_gate_fds (void)
{
  the_rt ();
  gate_fd = use_poll ? pollrt_get_event_loop_handle (rt) : async_runtime_get_event_loop_handle (rt);
  gate_wfd = use_poll ? pollrt_write_fd (rt) : gate_fd;
}

static void emit_wait (int max, int n, io_event_t * ev)
{
  char line[8192];
  int len = snprintf (line, sizeof line, "wait %d %d", max, n);
  for (int i = 0; i < n && len < (int) sizeof line - 64; i++)
    len += snprintf (line + len, sizeof line - len, " %lu:%lu", (unsigned long) ev[i].completion_key,
                     (unsigned long) ev[i].bytes_transferred);
  emit ("%s", line);
}

/* A wait split into its atomic steps.  read() on the eventfd is interposed (below): the thread inside
 * async_runtime_wait parks at gate 1 = entry of its first doorbell read and at gate 2 = after the read that
 * found the doorbell empty (EAGAIN).  Both gates are outside ring_lock, so the controlling thread can post /
 * wake up while the waiting thread is parked - the interleavings a whole-call schedule can never produce.
 * Handshake with semaphores only: nothing here depends on time.
 *   wbegin <max>   start the wait; it runs until gate 1 (or returns: `wait ...` is printed)
 *   wread          gate 1 -> gate 2 (the doorbell is read)
 *   wend           gate 2 -> the call returns: `wait <max> <n> ...`                                       */
static struct
{
  pthread_t th;
  int active, max, n;
  volatile int gate, done, past1;
  sem_t arrived, go;
  io_event_t ev[256];
} cw;
static __thread int gated_thread;	/* this thread's eventfd reads are gated */
static __thread uint64_t *read_jitter;	/* mt runs: random delay in front of the doorbell read of this thread */
static void park (int g)
{
  cw.gate = g;
  sem_post (&cw.arrived);
  sem_wait (&cw.go);
}

static uint64_t console_jitter;	/* != 0 while `mt console` runs */
static __thread uint64_t *write_jitter;	/* mt runs: random delay BEHIND the doorbell write of this (producer) thread */

ssize_t write (int fd, const void *buf, size_t n)
{
  ssize_t r = syscall (SYS_write, fd, buf, n);
  if (fd == gate_wfd && gate_wfd >= 0 && write_jitter)
    {
      int e = errno;
      rnd_yield (write_jitter);
      if (*write_jitter % 3 == 0)
        usleep (*write_jitter % 400);
      errno = e;
    }
  else if (fd == gate_wfd && gate_wfd >= 0 && __atomic_load_n (&console_jitter, __ATOMIC_RELAXED))
    {
      /* mt console: the worker thread (created by the library) pauses right after it rang the doorbell, so the backend
       * sees the completion before the worker's next statement runs */
      int e = errno;
      uint64_t r = __atomic_add_fetch (&console_jitter, 0x9E3779B97F4A7C15ULL, __ATOMIC_RELAXED);
      if ((r >> 33) % 2 == 0)
        usleep ((r >> 40) % 300);
      errno = e;
    }
  return r;
}

ssize_t read (int fd, void *buf, size_t n)
{
  if (fd == gate_fd && gate_fd >= 0)
    {
      if (gated_thread)
        {
          ssize_t r;
          if (!cw.past1)
            {
              cw.past1 = 1;
              park (1);
            }
          r = syscall (SYS_read, fd, buf, n);
          if (r <= 0)		/* the read that found the doorbell empty ends the drain loop of either back end */
            {
              int e = errno;
              park (2);
              errno = e;
            }
          return r;
        }
      if (read_jitter)
        {
          rnd_yield (read_jitter);
          if (*read_jitter % 3 == 0)
            usleep (*read_jitter % 400);
        }
    }
  return syscall (SYS_read, fd, buf, n);
}

static void *cw_thread (void *arg)
{
  struct timeval tv = { 0, 0 };
  (void) arg;
  gated_thread = 1;
  cw.n = RT_wait (rt, cw.ev, cw.max, &tv);
  gated_thread = 0;
  __atomic_store_n (&cw.done, 1, __ATOMIC_RELEASE);
  sem_post (&cw.arrived);
  return 0;
}

/* wait until the waiting thread has parked again or returned; 1 = it returned (result printed) */
static int cw_sync (void)
{
  struct timespec ts;
  clock_gettime (CLOCK_REALTIME, &ts);
  ts.tv_sec += LIVE_MS / 1000;
  while (sem_timedwait (&cw.arrived, &ts) < 0 && errno == EINTR)
    ;
  if (__atomic_load_n (&cw.done, __ATOMIC_ACQUIRE))
    {
      pthread_join (cw.th, 0);
      cw.active = 0;
      emit_wait (cw.max, cw.n, cw.ev);
      return 1;
    }
  return 0;
}

static void cmd_wbegin (int max)
{
  if (max <= 0 || max > 256)
    {
      emit ("skip wait-max-0");
      return;
    }
  if (cw.active)
    {
      emit ("skip wait-in-progress");
      return;
    }
  set_gate_fds ();
  sem_init (&cw.arrived, 0, 0);
  sem_init (&cw.go, 0, 0);
  cw.active = 1, cw.max = max, cw.gate = 0, cw.done = 0, cw.past1 = 0;
  pthread_create (&cw.th, 0, cw_thread, 0);
  if (!cw_sync ())
    emit ("wbegin %d parked", max);
}

static void cmd_wgo (int gate, const char *name)
{
  if (!cw.active || cw.gate != gate)
    {
      emit ("skip no-wait-parked");
      return;
    }
  sem_post (&cw.go);
  if (!cw_sync ())
    emit ("%s", name);
}

static void cmd_wait (int max)
{
  io_event_t ev[256];
  struct timeval tv = { 0, 0 };
  int n;
  if (max <= 0 || max > 256)
    {
      emit ("skip wait-max-0");
      return;
    }
  if (cw.active)
    {
      emit ("skip wait-in-progress");	/* async_runtime_wait must not be called by two threads */
      return;
    }
  n = RT_wait (the_rt (), ev, max, &tv);
  emit_wait (max, n, ev);
}

/* ---- queue ---------------------------------------------------------------------------------------------- */

static async_queue_t *q;
static int q_flags;

typedef struct
{
  uint32_t p, v;
} qmsg_t;

static struct
{
  pthread_t th;
  int pending;
  volatile int done;
  int rc;
  unsigned p, v, size;
} bw;				/* the one blocked writer */

static int do_enqueue (unsigned p, unsigned v, unsigned size)
{
  size_t alloc = size < sizeof (qmsg_t) ? sizeof (qmsg_t) : size;
  char *buf = (char *) calloc (1, alloc + 8);
  qmsg_t m = { p, v };
  int rc;
  memcpy (buf, &m, sizeof m);
  rc = async_queue_enqueue (q, buf, size) ? 1 : 0;
  free (buf);
  return rc;
}

/* is the thread sleeping in the kernel (state S in /proc/self/task/<tid>/stat)?  -1 = cannot tell */
static int thread_sleeping (int tid)
{
  char path[64], buf[512];
  FILE *f;
  char *p;
  snprintf (path, sizeof path, "/proc/self/task/%d/stat", tid);
  f = fopen (path, "r");
  if (!f)
    return -1;
  if (!fgets (buf, sizeof buf, f))
    {
      fclose (f);
      return -1;
    }
  fclose (f);
  p = strrchr (buf, ')');
  return p && p[1] == ' ' ? p[2] == 'S' : -1;
}

static volatile int bw_tid;
static int clear_dead;

static void *bw_thread (void *arg)
{
  (void) arg;
  __atomic_store_n (&bw_tid, (int) syscall (SYS_gettid), __ATOMIC_RELEASE);
  bw.rc = do_enqueue (bw.p, bw.v, bw.size);
  __atomic_store_n (&bw.done, 1, __ATOMIC_RELEASE);
  return 0;
}

static void cmd_enq (unsigned p, unsigned v, unsigned size)
{
  if (!q)
    {
      emit ("skip no-queue");
      return;
    }
  if (bw.pending)
    {
      emit ("skip writer-already-blocked");
      return;
    }
  if ((q_flags & ASYNC_QUEUE_BLOCK_WRITER) && !(q_flags & ASYNC_QUEUE_DROP_OLDEST) && size > 0
      && size <= q->max_msg_size && async_queue_is_full (q))
    {
      /* the call may sleep on not_full: make it from a helper thread and see whether it comes back */
      bw.p = p, bw.v = v, bw.size = size, bw.done = 0;
      bw_tid = 0;
      pthread_create (&bw.th, 0, bw_thread, 0);
      /* wait for a CONDITION, not for a time: the call has returned, or its thread sleeps in the kernel (on
       * not_full: in this single-controller harness nothing else can make it sleep); seen twice in a row */
      {
        long end = now_ms () + LIVE_MS;
        int asleep = 0;
        while (!__atomic_load_n (&bw.done, __ATOMIC_ACQUIRE) && now_ms () < end && asleep < 5)
          {
            int tid = __atomic_load_n (&bw_tid, __ATOMIC_ACQUIRE);
            int st = tid ? thread_sleeping (tid) : 0;
            if (st < 0)
              {
                msleep (100);	/* no /proc: fall back to a grace period */
                break;
              }
            asleep = st ? asleep + 1 : 0;
            usleep (300);
          }
      }
      if (__atomic_load_n (&bw.done, __ATOMIC_ACQUIRE))
        {
          pthread_join (bw.th, 0);
          emit ("enq %u %u %u %s", p, v, size, bw.rc ? "ok" : "fail");
        }
      else
        {
          bw.pending = 1;
          emit ("enq %u %u %u blocked", p, v, size);
        }
      return;
    }
  emit ("enq %u %u %u %s", p, v, size, do_enqueue (p, v, size) ? "ok" : "fail");
}

static void cmd_deq (unsigned bufsize)
{
  char *buf;
  size_t sz = 0;
  if (!q)
    {
      emit ("skip no-queue");
      return;
    }
  buf = (char *) calloc (1, bufsize + 16);
  if (async_queue_dequeue (q, buf, bufsize, &sz))
    {
      qmsg_t m = { 0, 0 };
      memcpy (&m, buf, sz < sizeof m ? sz : sizeof m);
      emit ("deq %u %u %u %lu", bufsize, m.p, m.v, (unsigned long) sz);
      if (bw.pending && wait_flag (&bw.done, LIVE_MS))
        {
          pthread_join (bw.th, 0);
          bw.pending = 0;
          if (bw.rc)
            emit ("unblocked %u %u", bw.p, bw.v);
          else
            emit ("enq %u %u %u fail", bw.p, bw.v, bw.size);
        }
    }
  else
    emit ("deq %u none", bufsize);
  free (buf);
}

static void cmd_qstat (void)
{
  async_queue_stats_t st;
  if (!q)
    {
      emit ("skip no-queue");
      return;
    }
  async_queue_get_stats (q, &st);
  emit ("qstat %lu %lu %lu %lu %lu %lu %d %d", (unsigned long) st.current_size, (unsigned long) st.enqueue_count,
        (unsigned long) st.dequeue_count, (unsigned long) st.dropped_count, (unsigned long) q->head,
        (unsigned long) q->tail, async_queue_is_empty (q) ? 1 : 0, async_queue_is_full (q) ? 1 : 0);
}

/* ---- worker --------------------------------------------------------------------------------------------- */

#define MAXW 16
/* workers with an even number are created with an explicit stack size (the pthread_attr path of
 * async_worker_create), the others with the default: both paths must show the same life cycle */
#define WSTACK(w) (((w) % 2 == 0) ? (size_t) (512 * 1024) : (size_t) 0)
typedef struct
{
  int used;
  async_worker_t *w;
  int hold;
  sem_t gate1, step;
  volatile int reached1, inproc, returned, quit, steps;
  int exited, joined, destroyed, stop;
} wslot_t;
static wslot_t ws[MAXW];
static __thread wslot_t *my_slot;
static wslot_t *volatile creating;

static void yield_cb (int point, void *worker)
{
  (void) worker;
  if (point == 1)
    {
      my_slot = creating;
      if (!my_slot)
        return;
      __atomic_store_n (&my_slot->reached1, 1, __ATOMIC_RELEASE);
      if (__atomic_load_n (&my_slot->hold, __ATOMIC_ACQUIRE))
        sem_wait (&my_slot->gate1);
    }
  else if (point == 2 && my_slot)
    __atomic_store_n (&my_slot->returned, 1, __ATOMIC_RELEASE);
}

static void *scripted_proc (void *ctx)
{
  wslot_t *s = (wslot_t *) ctx;
  __atomic_store_n (&s->inproc, 1, __ATOMIC_RELEASE);
  for (;;)
    {
      sem_wait (&s->step);
      if (__atomic_load_n (&s->quit, __ATOMIC_ACQUIRE))
        break;
      /* the stop event is manual-reset: once signalled it STAYS signalled, every poll must see it */
      if (async_worker_should_stop (async_worker_current ()) && async_worker_should_stop (async_worker_current ()))
        break;
      __atomic_fetch_add (&s->steps, 1, __ATOMIC_ACQ_REL);
    }
  return 0;
}

static wslot_t *slot_of (int w, int must_exist)
{
  if (w < 0 || w >= MAXW)
    return 0;
  if (must_exist && !ws[w].used)
    return 0;
  return &ws[w];
}

static void wait_thread_exit (wslot_t * s)
{
  long end = now_ms () + LIVE_MS;
  wait_flag (&s->returned, LIVE_MS);
  while (async_worker_get_state (s->w) != ASYNC_WORKER_STOPPED && now_ms () < end)
    usleep (200);
  usleep (500);
  s->exited = 1;
}

/* The creator-side window of async_worker_create: pthread_create() is interposed in this executable.  In `race` mode
 * it does not return to the creator until the NEW THREAD HAS RUN TO ITS END (a short-lived worker, the creator
 * preempted right after the thread was started) - so whatever the creator stores into the worker afterwards arrives
 * after the thread wrapper's STOPPED store.  No sleeps: the new thread publishes its kernel tid, the creator waits
 * until /proc/self/task/<tid> has disappeared (the thread has exited). */
static __thread int race_create;	/* set by the controlling thread around async_worker_create */
static volatile int race_tid;

static void *race_proc (void *ctx)
{
  (void) ctx;
  __atomic_store_n (&race_tid, (int) syscall (SYS_gettid), __ATOMIC_RELEASE);
  return 0;			/* a worker procedure that returns at once */
}

int pthread_create (pthread_t * th, const pthread_attr_t * attr, void *(*fn) (void *), void *arg)
{
  static int (*real) (pthread_t *, const pthread_attr_t *, void *(*)(void *), void *);
  int rc;
  if (!real)
    real = (int (*)(pthread_t *, const pthread_attr_t *, void *(*)(void *), void *)) dlsym (RTLD_NEXT, "pthread_create");
  rc = real (th, attr, fn, arg);
  if (rc == 0 && race_create)
    {
      long end = now_ms () + LIVE_MS;
      char path[64];
      int tid;
      while (!(tid = __atomic_load_n (&race_tid, __ATOMIC_ACQUIRE)) && now_ms () < end)
        usleep (100);
      snprintf (path, sizeof path, "/proc/self/task/%d", tid);
      while (tid && access (path, F_OK) == 0 && now_ms () < end)
        usleep (100);
    }
  return rc;
}

static void cmd_wnew_race (int w)
{
  wslot_t *s = slot_of (w, 0);
  if (!s)
    {
      emit ("skip no-worker");
      return;
    }
  if (s->used)
    {
      emit ("skip worker-exists");
      return;
    }
  memset (s, 0, sizeof *s);
  s->used = 1;
  sem_init (&s->gate1, 0, 0);
  sem_init (&s->step, 0, 0);
#ifdef NEOLITH_VERIF
  verif_async_yield = yield_cb;	/* other workers of this case still need their yield points */
#endif
  creating = s;
  race_tid = 0;
  race_create = 1;
  s->w = async_worker_create (race_proc, s, WSTACK (w));
  race_create = 0;
  if (!s->w)
    {
      emit ("wnew %d null", w);
      return;
    }
  s->reached1 = s->inproc = s->returned = 1;
  s->exited = 1;
  emit ("wnew %d finished", w);
}

static void cmd_wnew (int w, int hold)
{
  wslot_t *s = slot_of (w, 0);
  if (!s)
    {
      emit ("skip no-worker");
      return;
    }
  if (s->used)
    {
      emit ("skip worker-exists");
      return;
    }
  memset (s, 0, sizeof *s);
  s->used = 1;
  s->hold = hold;
  sem_init (&s->gate1, 0, 0);
  sem_init (&s->step, 0, 0);
#ifdef NEOLITH_VERIF
  verif_async_yield = yield_cb;
#endif
  creating = s;
  s->w = async_worker_create (scripted_proc, s, WSTACK (w));
  if (!s->w)
    {
      emit ("wnew %d null", w);
      return;
    }
  wait_flag (&s->reached1, LIVE_MS);	/* the thread is at hook point 1: it has not stored RUNNING yet */
  if (!hold)
    wait_flag (&s->inproc, LIVE_MS);
  emit ("wnew %d ok", w);
}

typedef struct
{
  async_worker_t *w;
  int t;
  volatile int started, done;
  int rc;
  int sleeps;			/* nanosleep() calls made by async_worker_join */
} joinreq_t;

static void *join_thread (void *arg)
{
  joinreq_t *r = (joinreq_t *) arg;
  sleep_counter = &r->sleeps;
  __atomic_store_n (&r->started, 1, __ATOMIC_RELEASE);
  r->rc = async_worker_join (r->w, r->t) ? 1 : 0;
  sleep_counter = 0;
  __atomic_store_n (&r->done, 1, __ATOMIC_RELEASE);
  return 0;
}

/* async_worker_join under a watchdog; returns rc (and the number of 10 ms sleeps it made), or -1 when it did not
 * come back.  The model proves that a timed join makes at most ceil(t/10) sleeps of 10 ms and never waits for
 * anything else.  The watchdog makes, under the same machine load, 4 * (ceil(t/10) + 2) + 100 such sleeps
 * (at least one second) after the joining thread has started: not back by then = overran. */
static int bounded_join (async_worker_t * w, int t, int *sleeps)
{
  static joinreq_t reqs[64];
  static int nreq;
  joinreq_t *r = &reqs[nreq++ % 64];
  pthread_t th;
  long budget = 4L * ((t < 0 ? 0 : (t + POLL_MS - 1) / POLL_MS) + 2) + 100;
  r->w = w, r->t = t, r->done = 0, r->started = 0, r->sleeps = 0;
  pthread_create (&th, 0, join_thread, r);
  wait_flag (&r->started, LIVE_MS);
  while (!__atomic_load_n (&r->done, __ATOMIC_ACQUIRE) && budget-- > 0)
    msleep (POLL_MS);
  if (!__atomic_load_n (&r->done, __ATOMIC_ACQUIRE))
    {
      pthread_detach (th);
      return -1;
    }
  pthread_join (th, 0);
  if (sleeps)
    *sleeps = r->sleeps;
  return r->rc;
}

static void cmd_wjoin (int w, int t)
{
  wslot_t *s = slot_of (w, 1);
  int rc, sleeps = 0;
  if (!s)
    {
      emit ("skip no-worker");
      return;
    }
  if (s->joined)
    {
      emit ("skip already-joined");
      return;
    }
  if (t < 0 && !s->exited)
    {
      emit ("skip untimed-join-on-live-thread");
      return;
    }
  rc = bounded_join (s->w, t, &sleeps);
  if (rc < 0)
    {
      emit ("wjoin %d %d overran 0", w, t);
      fflush (out);
      _exit (0);		/* the controlling thread of the model is stuck in pthread_join: the case ends here */
    }
  if (rc)
    s->joined = 1;
  emit ("wjoin %d %d %d %d", w, t, rc, sleeps);
}

static int worker_cmd (char **tok, int n)
{
  wslot_t *s;
  int w = n > 1 ? atoi (tok[1]) : -1;
  if (!strcmp (tok[0], "wnew") && n == 3)
    {
      if (!strcmp (tok[2], "race"))
        cmd_wnew_race (w);
      else
        cmd_wnew (w, !strcmp (tok[2], "hold"));
      return 1;
    }
  if (!strcmp (tok[0], "wjoin") && n == 3)
    {
      cmd_wjoin (w, atoi (tok[2]));
      return 1;
    }
  if (strcmp (tok[0], "wstate") && strcmp (tok[0], "wrelease") && strcmp (tok[0], "wstep") && strcmp (tok[0], "wquit")
      && strcmp (tok[0], "wstop") && strcmp (tok[0], "wdestroy"))
    return 0;
  if (n != 2)
    return 0;
  s = slot_of (w, 1);
  if (!s || !s->w)
    {
      emit ("skip no-worker");
      return 1;
    }
  if (!strcmp (tok[0], "wstate"))
    {
      if (s->destroyed)
        emit ("skip destroyed");
      else
        {
          async_worker_state_t st = async_worker_get_state (s->w);
          emit ("wstate %d %s", w, st == ASYNC_WORKER_RUNNING ? "RUNNING" : st == ASYNC_WORKER_STOPPED ? "STOPPED" : "STOPPING");
        }
    }
  else if (!strcmp (tok[0], "wrelease"))
    {
      if (s->hold && !s->inproc)
        {
          __atomic_store_n (&s->hold, 0, __ATOMIC_RELEASE);
          sem_post (&s->gate1);
          wait_flag (&s->inproc, LIVE_MS);
          emit ("wrelease %d ok", w);
        }
      else
        emit ("wrelease %d noop", w);
    }
  else if (!strcmp (tok[0], "wstep") || !strcmp (tok[0], "wquit"))
    {
      int quit = tok[0][1] == 'q';
      if (s->inproc && !s->exited)
        {
          int before = __atomic_load_n (&s->steps, __ATOMIC_ACQUIRE);
          long end = now_ms () + LIVE_MS;
          if (quit)
            __atomic_store_n (&s->quit, 1, __ATOMIC_RELEASE);
          sem_post (&s->step);
          while (__atomic_load_n (&s->steps, __ATOMIC_ACQUIRE) == before && !__atomic_load_n (&s->returned, __ATOMIC_ACQUIRE)
                 && now_ms () < end)
            usleep (200);
          if (__atomic_load_n (&s->returned, __ATOMIC_ACQUIRE))
            {
              wait_thread_exit (s);
              emit ("%s %d exited", tok[0], w);
            }
          else
            emit ("%s %d running", tok[0], w);
        }
      else
        emit ("%s %d noop", tok[0], w);
    }
  else if (!strcmp (tok[0], "wstop"))
    {
      if (s->destroyed)
        emit ("skip destroyed");
      else
        {
          async_worker_signal_stop (s->w);
          emit ("wstop %d", w);
        }
    }
  else if (!strcmp (tok[0], "wdestroy"))
    {
      if (s->destroyed)
        emit ("skip destroyed");
      else if (s->joined)
        {
          async_worker_destroy (s->w);
          s->destroyed = 1;
          emit ("wdestroy %d ok", w);
        }
      else
        emit ("wdestroy %d refused", w);
    }
  return 1;
}

/* ---- timer ---------------------------------------------------------------------------------------------- */

static platform_timer_t tm;
static int tm_inited;
static unsigned long tm_interval_ms;
static volatile int tm_count;
static int tick_dead;		/* a due tick did not come within TICK_MS: do not wait again in this case */
static unsigned long tm_slept;	/* ms slept while the timer was active since the last tticks / start / stop */

static void tm_callback (void)
{
  __atomic_fetch_add (&tm_count, 1, __ATOMIC_ACQ_REL);
}

static int timer_cmd (char **tok, int n)
{
  if (!strcmp (tok[0], "tinit") && n == 1)
    {
      if (tm_inited)
        emit ("skip timer-inited");
      else
        {
          int rc = platform_timer_init (&tm);
          tm_inited = rc == 0;
          emit ("tinit %d", rc);
        }
      return 1;
    }
  if (!strcmp (tok[0], "tstart") && n == 2)
    {
      unsigned long ms = strtoul (tok[1], 0, 10);
      int rc = platform_timer_start (&tm, ms * 1000UL, tm_callback);
      if (rc == 0)
        {
          tm_interval_ms = ms;
          tm_slept = 0;
          __atomic_store_n (&tm_count, 0, __ATOMIC_RELEASE);
        }
      emit ("tstart %lu %d", ms, rc);
      return 1;
    }
  if (!strcmp (tok[0], "tstop") && n == 1)
    {
      long t0 = now_ms ();
      int rc = platform_timer_stop (&tm);
      long el = now_ms () - t0;
      __atomic_store_n (&tm_count, 0, __ATOMIC_RELEASE);	/* from here on every callback is "after stop" */
      tm_slept = 0;
      emit ("tstop %d %s", rc, came_back_late (el, (long) tm_interval_ms) ? "overran" : "within");
      return 1;
    }
  if (!strcmp (tok[0], "tactive") && n == 1)
    {
      emit ("tactive %d", platform_timer_is_active (&tm));
      return 1;
    }
  if (!strcmp (tok[0], "tsleep") && n == 2)
    {
      if (tm_inited && platform_timer_is_active (&tm))
        tm_slept += strtoul (tok[1], 0, 10);
      msleep (atol (tok[1]));
      emit ("tsleep %s", tok[1]);
      return 1;
    }
  if (!strcmp (tok[0], "tticks") && n == 1)
    {
      int c;
      /* a tick is due (the timer was active for >= 10 intervals): on a slow machine the timer thread may not have
       * been scheduled yet - wait for the tick itself, the time slept is no verdict */
      if (tm_inited && platform_timer_is_active (&tm) && tm_slept >= 10 * tm_interval_ms && tm_slept > 0)
        {
          if (!tick_dead && !wait_flag (&tm_count, TICK_MS))
            tick_dead = 1;
        }
      c = __atomic_exchange_n (&tm_count, 0, __ATOMIC_ACQ_REL);
      /* too short a sleep to promise a tick: the class is not determined by the schedule */
      int amb = tm_inited && platform_timer_is_active (&tm) && tm_slept > 0 && tm_slept < 10 * tm_interval_ms;
      tm_slept = 0;
      emit ("tticks %s", amb ? "ambiguous" : c > 0 ? "some" : "none");
      return 1;
    }
  if (!strcmp (tok[0], "tafter") && n == 1)
    {
      if (platform_timer_is_active (&tm))
        emit ("skip timer-active");
      else
        emit ("tafter %d", __atomic_load_n (&tm_count, __ATOMIC_ACQUIRE));
      return 1;
    }
  if (!strcmp (tok[0], "tcleanup") && n == 1)
    {
      if (!tm_inited)
        emit ("skip timer-not-inited");
      else
        {
          platform_timer_cleanup (&tm);
          tm_slept = 0;
          __atomic_store_n (&tm_count, 0, __ATOMIC_RELEASE);
          tm_inited = 0;
          emit ("tcleanup");
        }
      return 1;
    }
  return 0;
}

/* ---- real multi-thread runs ----------------------------------------------------------------------------- */

typedef struct
{
  int id, nper;
  uint64_t seed;
  int refused;
  volatile int done;
  volatile long gen;		/* quiet points reached */
} prod_t;

#define MT_KEY0 0x1000

static volatile long mt_posted;	/* posts that have RETURNED 0 */

static volatile long mt_ack;	/* quiet points acknowledged by the consumer */

/* Producers post in bursts; after each burst they stop at a QUIET POINT until the consumer has received everything
 * posted so far.  At a quiet point nobody will ring the doorbell again, so a completion whose wake-up was erased
 * stays undelivered and the consumer's wait times out: every burst end is a chance to observe a lost wake-up
 * (without quiet points the next post of anybody hides it). */
static void *post_producer (void *arg)
{
  prod_t *p = (prod_t *) arg;
  int burst = 1 + (int) (rng_next (&p->seed) % 12);
  write_jitter = &p->seed;	/* widen the window between this thread's doorbell write and whatever follows it */
  for (int i = 0; i < p->nper; i++)
    {
      rnd_yield (&p->seed);
      if (rng_next (&p->seed) % 5 == 0)
        RT_wakeup (rt);
      while (RT_post (rt, MT_KEY0 + p->id, (uintptr_t) i) != 0)
        {
          p->refused++;
          sched_yield ();
        }
      __atomic_fetch_add (&mt_posted, 1, __ATOMIC_ACQ_REL);
      if (--burst == 0)
        {
          long g = __atomic_add_fetch (&p->gen, 1, __ATOMIC_ACQ_REL);
          while (__atomic_load_n (&mt_ack, __ATOMIC_ACQUIRE) < g)
            usleep (100);		/* no busy spinning: the consumer needs the CPU on a loaded machine */
          burst = 1 + (int) (rng_next (&p->seed) % 12);
        }
    }
  __atomic_store_n (&p->done, 1, __ATOMIC_RELEASE);
  return 0;
}

/* mt post <nprod> <nper> <maxev> <seed> */
static void mt_post (int nprod, int nper, int maxev, uint64_t seed)
{
  pthread_t th[16];
  prod_t pr[16];
  int next[16] = { 0 };
  io_event_t ev[64];
  long total = (long) nprod * nper, got = 0, dup = 0, lost = 0, garbled = 0, extra = 0, slept_on = 0;
  long deadline;
  uint64_t cs = seed ^ 0xC0FFEE;
  if (nprod < 1 || nprod > 16 || maxev < 1 || maxev > 64)
    {
      emit ("mt post bad arguments");
      return;
    }
  set_gate_fds ();
  read_jitter = &cs;		/* widen the window around this thread's doorbell read */
  __atomic_store_n (&mt_posted, 0, __ATOMIC_RELEASE);
  __atomic_store_n (&mt_ack, 0, __ATOMIC_RELEASE);
  for (int i = 0; i < nprod; i++)
    {
      pr[i].id = i, pr[i].nper = nper, pr[i].seed = seed * 131 + i, pr[i].refused = 0, pr[i].done = 0, pr[i].gen = 0;
      pthread_create (&th[i], 0, post_producer, &pr[i]);
    }
  deadline = now_ms () + MT_LIVE_MS;	/* liveness only: producers stuck */
  int empty_after_done = 0, stuck = 0;
  while (got + lost < total && now_ms () < deadline)
    {
      struct timeval tv = { 0, 20000 };
      /* read BEFORE the wait: once every post has returned, a wait that brings nothing is decisive (the model
       * proves that nothing is left behind without a doorbell) - no deadline is involved in the verdict */
      int all_done = 1;
      for (int i = 0; i < nprod; i++)
        if (!__atomic_load_n (&pr[i].done, __ATOMIC_ACQUIRE))
          all_done = 0;
      /* posts that had returned before this wait was called: the wait must not time out without delivering
       * them (lost wake-up) - a statement about the order of events, not about time */
      long before = __atomic_load_n (&mt_posted, __ATOMIC_ACQUIRE);
      int n = RT_wait (rt, ev, maxev, &tv);
      if (n <= 0 && before > got + dup + garbled)
        {
          slept_on++;
          RT_wakeup (rt);	/* ring for the erased wake-up so that the run can finish (verdict is already bad) */
        }
      if (n <= 0 && all_done && ++empty_after_done >= 3)
        break;
      /* everybody waits at a quiet point (or is done), waits keep coming back empty although we rang ourselves:
       * what is missing will never arrive (lost / merged completions) */
      if (n <= 0)
        {
          int parked = 1;
          long ack = __atomic_load_n (&mt_ack, __ATOMIC_ACQUIRE);
          for (int i = 0; i < nprod; i++)
            if (!__atomic_load_n (&pr[i].done, __ATOMIC_ACQUIRE) && __atomic_load_n (&pr[i].gen, __ATOMIC_ACQUIRE) <= ack)
              parked = 0;
          if (parked && ++stuck >= 3)
            break;
        }
      else
        stuck = 0;
      for (int i = 0; i < n; i++)
        {
          long k = (long) ev[i].completion_key - MT_KEY0;
          long d = (long) ev[i].bytes_transferred;
          if (k < 0 || k >= nprod || d < 0 || d >= nper)
            garbled++;
          else if (d < next[k])
            dup++;
          else
            {
              lost += d - next[k];	/* skipped over: lost or overtaken */
              next[k] = (int) d + 1;
              got++;
            }
        }
      /* quiet point: every producer that still runs has stopped after its burst g, and everything posted has arrived */
      {
        long g = -1;
        for (int i = 0; i < nprod; i++)
          if (!__atomic_load_n (&pr[i].done, __ATOMIC_ACQUIRE))
            {
              long gi = __atomic_load_n (&pr[i].gen, __ATOMIC_ACQUIRE);
              if (g < 0 || gi < g)
                g = gi;
            }
        if (g > __atomic_load_n (&mt_ack, __ATOMIC_ACQUIRE)
            && __atomic_load_n (&mt_posted, __ATOMIC_ACQUIRE) == got + dup + garbled)
          __atomic_store_n (&mt_ack, g, __ATOMIC_RELEASE);
      }
      if (rng_next (&cs) % 4 == 0)
        usleep (rng_next (&cs) % 300);	/* let posts pile up between two waits */
    }
  __atomic_store_n (&mt_ack, 1L << 40, __ATOMIC_RELEASE);	/* release producers still parked at a quiet point */
  for (int i = 0; i < nprod; i++)
    pthread_join (th[i], 0);
  for (int r = 0; r < 3; r++)
    {
      struct timeval tv = { 0, 0 };
      int n = RT_wait (rt, ev, maxev, &tv);
      extra += n > 0 ? n : 0;
    }
  read_jitter = 0;
  if (got == total && !dup && !lost && !garbled && !extra && !slept_on)
    emit ("mt post ok");
  else
    emit ("mt post bad delivered=%ld/%ld lost-or-overtaken=%ld duplicated=%ld garbled=%ld after-the-end=%ld "
          "waits-that-slept-on-a-posted-completion=%ld", got, total, lost, dup, garbled, extra, slept_on > 0 ? 1L : 0L);
}

typedef struct
{
  int id, nper, retry;
  uint64_t seed;
  volatile int done;
} qprod_t;

static void *queue_producer (void *arg)
{
  qprod_t *p = (qprod_t *) arg;
  for (int i = 0; i < p->nper; i++)
    {
      qmsg_t m = { (uint32_t) p->id, (uint32_t) i };
      rnd_yield (&p->seed);
      while (!async_queue_enqueue (q, &m, sizeof m))
        {
          if (!p->retry)
            break;
          sched_yield ();
        }
    }
  __atomic_store_n (&p->done, 1, __ATOMIC_RELEASE);
  return 0;
}

/* mt queue <flags> <cap> <nprod> <nper> <seed> */
static void mt_queue (int flags, int cap, int nprod, int nper, uint64_t seed)
{
  pthread_t th[16];
  qprod_t pr[16];
  int next[16] = { 0 };
  long total = (long) nprod * nper, got = 0, dup = 0, skipped = 0, garbled = 0;
  long deadline;
  int exact = !(flags & ASYNC_QUEUE_DROP_OLDEST);
  async_queue_stats_t st;
  uint64_t cs = seed ^ 0xBEEF;
  if (q || nprod < 1 || nprod > 16 || cap < 1)
    {
      emit ("mt queue bad arguments");
      return;
    }
  q = async_queue_create (cap, sizeof (qmsg_t), (async_queue_flags_t) flags);
  for (int i = 0; i < nprod; i++)
    {
      pr[i].id = i, pr[i].nper = nper, pr[i].seed = seed * 977 + i, pr[i].retry = exact, pr[i].done = 0;
      pthread_create (&th[i], 0, queue_producer, &pr[i]);
    }
  deadline = now_ms () + MT_LIVE_MS;	/* liveness only: producers stuck */
  int joined = 0;
  for (;;)
    {
      qmsg_t m;
      size_t sz = 0;
      /* read the flags BEFORE the dequeue attempt: empty after all producers finished = really drained */
      int all_done = 1;
      for (int i = 0; i < nprod; i++)
        if (!__atomic_load_n (&pr[i].done, __ATOMIC_ACQUIRE))
          all_done = 0;
      if (async_queue_dequeue (q, &m, sizeof m, &sz))
        {
          if (sz != sizeof m || m.p >= (uint32_t) nprod || m.v >= (uint32_t) nper)
            garbled++;
          else if ((int) m.v < next[m.p])
            dup++;
          else
            {
              skipped += (int) m.v - next[m.p];
              next[m.p] = (int) m.v + 1;
              got++;
            }
        }
      else
        {
          if (all_done)
            {
              joined = 1;
              break;
            }
          if (now_ms () > deadline)
            break;
          sched_yield ();
        }
      if (rng_next (&cs) % 16 == 0)
        usleep (rng_next (&cs) % 400);	/* let the queue fill up */
    }
  if (joined)
    for (int i = 0; i < nprod; i++)
      pthread_join (th[i], 0);
  async_queue_get_stats (q, &st);
  if (!joined)
    emit ("mt queue bad producers-stuck delivered=%ld/%ld", got, total);
  else if (dup || garbled || (exact && (skipped || got != total)) || (!exact && got + (long) st.dropped_count != total)
           || st.current_size != 0 || q->head >= q->capacity || q->tail >= q->capacity)
    emit ("mt queue bad delivered=%ld/%ld dropped=%lu skipped=%ld duplicated=%ld garbled=%ld left=%lu", got, total,
          (unsigned long) st.dropped_count, skipped, dup, garbled, (unsigned long) st.current_size);
  else
    emit ("mt queue ok");
}

static volatile int free_iters[16];

static void *free_proc (void *ctx)
{
  int i = (int) (intptr_t) ctx;
  async_worker_t *self = async_worker_current ();
  while (!async_worker_should_stop (self))
    {
      __atomic_fetch_add (&free_iters[i], 1, __ATOMIC_ACQ_REL);
      usleep (200);
    }
  return 0;
}

typedef struct
{
  async_worker_t *w;
  unsigned delay_us;
} stopper_t;

static void *stopper_thread (void *arg)
{
  stopper_t *s = (stopper_t *) arg;
  if (s->delay_us)
    usleep (s->delay_us);
  async_worker_signal_stop (s->w);
  return 0;
}

/* mt worker <n> <seed>: create / early timed join / stop / join / destroy at random moments of real threads */
static void mt_worker (int n, uint64_t seed)
{
  int bad = 0;
  char why[256] = "";
#ifdef NEOLITH_VERIF
  verif_async_yield = 0;
#endif
  for (int i = 0; i < n && i < 16 && !bad; i++)
    {
      async_worker_t *w = async_worker_create (free_proc, (void *) (intptr_t) i, WSTACK (i));
      int rc, a, b;
      if (!w)
        {
          bad = 1, snprintf (why, sizeof why, "create-failed");
          break;
        }
      switch (rng_next (&seed) % 4)
        {
        case 0:
          break;		/* join at once: the new thread has most likely not run yet */
        case 1:
          sched_yield ();
          break;
        case 2:
          usleep (rng_next (&seed) % 300);
          break;
        default:
          usleep (1000 + rng_next (&seed) % 3000);
          break;
        }
      if (rng_next (&seed) % 4 != 0)
        {
          rc = bounded_join (w, 20 + (int) (rng_next (&seed) % 30), 0);	/* no stop signalled: must time out */
          if (rc != 0)
            {
              bad = 1, snprintf (why, sizeof why, "timed-join-without-stop %s", rc < 0 ? "overran" : "returned-true");
              break;
            }
        }
      if (rng_next (&seed) % 2 == 0)
        {
          /* the stop is signalled by ANOTHER thread while this one is already inside the timed join: the thread
           * finishes DURING the join.  A join may come back false only because its time is up, i.e. after all of its
           * ceil(t/10) sleeps (counted, not timed): false after fewer sleeps = it gave up although the state it polls
           * had become STOPPED */
          stopper_t sp = { w, (unsigned) (rng_next (&seed) % 3000) };
          pthread_t st;
          int sl = 0, t = 3000;
          pthread_create (&st, 0, stopper_thread, &sp);
          rc = bounded_join (w, t, &sl);
          pthread_join (st, 0);
          if (rc == 0 && sl < (t + POLL_MS - 1) / POLL_MS)
            {
              bad = 1, snprintf (why, sizeof why, "join-false-before-its-timeout sleeps=%d", sl);
              break;
            }
          if (rc < 0)
            {
              bad = 1, snprintf (why, sizeof why, "join-during-stop overran");
              break;
            }
        }
      else
        rc = 0;
      async_worker_signal_stop (w);
      /* the procedure polls the stop event every 0.2 ms; on a slow machine one timed join may expire before the
       * thread was scheduled: every join must come back, one of them (liveness bound) with true */
      if (rc != 1)
      for (int tries = 0; tries < 30; tries++)
        if ((rc = bounded_join (w, 2000, 0)) != 0)
          break;
      if (rc != 1)
        {
          bad = 1, snprintf (why, sizeof why, "join-after-stop %s", rc < 0 ? "overran" : "timed-out");
          break;
        }
      a = __atomic_load_n (&free_iters[i], __ATOMIC_ACQUIRE);
      usleep (3000);
      b = __atomic_load_n (&free_iters[i], __ATOMIC_ACQUIRE);
      if (a != b)
        bad = 1, snprintf (why, sizeof why, "procedure-ran-after-join");
      if (async_worker_get_state (w) != ASYNC_WORKER_STOPPED)
        bad = 1, snprintf (why, sizeof why, "state-not-stopped-after-join");
      async_worker_destroy (w);
    }
  if (bad)
    emit ("mt worker bad %s", why);
  else
    emit ("mt worker ok");
}

/* mt timer <interval_ms> <run_ms> <seed> */
static void mt_timer (int interval, int run, uint64_t seed)
{
  platform_timer_t t;
  const char *why = 0;
  if (interval < 1 || platform_timer_init (&t) != 0)
    {
      emit ("mt timer bad arguments");
      return;
    }
  for (int round = 0; round < 3 && !why; round++)
    {
      long t0, el;
      int a, b;
      __atomic_store_n (&tm_count, 0, __ATOMIC_RELEASE);
      if (platform_timer_start (&t, interval * 1000UL, tm_callback) != 0)
        {
          why = "start-failed";
          break;
        }
      usleep (1000 * run + rng_next (&seed) % (1000 * interval));
      if (run >= 10 * interval && !wait_flag (&tm_count, TICK_MS))	/* waits for the first tick, however slow the machine */
        why = "never-fired";
      t0 = now_ms ();
      if (round == 2)
        platform_timer_cleanup (&t);	/* cleanup of an active timer stops it */
      else if (platform_timer_stop (&t) != 0)
        why = "stop-failed";
      el = now_ms () - t0;
      a = __atomic_load_n (&tm_count, __ATOMIC_ACQUIRE);
      if (came_back_late (el, interval))
        why = "stop-overran";
      usleep (3000 * interval);
      b = __atomic_load_n (&tm_count, __ATOMIC_ACQUIRE);
      if (a != b)
        why = "callback-after-stop";
    }
  if (why)
    emit ("mt timer bad %s", why);
  else
    emit ("mt timer ok");
}

/* mt qclear <cap> <nprod> <nper> <seed>: several writers asleep on a full BLOCK_WRITER queue; the consumer makes room
 * mostly by async_queue_clear.  After a clear issued while the queue is full and some producer still has messages, the
 * enqueue counter must move (a writer was released): waited for as a condition.  Per-producer order of what is
 * dequeued must be increasing (cleared messages are skipped, nothing is duplicated or reordered). */
static void mt_qclear (int cap, int nprod, int nper, uint64_t seed)
{
  pthread_t th[16];
  qprod_t pr[16];
  int next[16] = { 0 };
  long dup = 0, garbled = 0, clears = 0;
  const char *why = 0;
  async_queue_stats_t st;
  uint64_t cs = seed ^ 0xC1EA;
  if (q || nprod < 1 || nprod > 16 || cap < 1)
    {
      emit ("mt qclear bad arguments");
      return;
    }
  q = async_queue_create (cap, sizeof (qmsg_t), ASYNC_QUEUE_BLOCK_WRITER);
  for (int i = 0; i < nprod; i++)
    {
      pr[i].id = i, pr[i].nper = nper, pr[i].seed = seed * 977 + i, pr[i].retry = 1, pr[i].done = 0;
      pthread_create (&th[i], 0, queue_producer, &pr[i]);
    }
  for (;;)
    {
      int all_done = 1;
      long end = now_ms () + MT_LIVE_MS;
      uint64_t e0;
      for (int i = 0; i < nprod; i++)
        if (!__atomic_load_n (&pr[i].done, __ATOMIC_ACQUIRE))
          all_done = 0;
      if (all_done)
        break;
      /* give the producers a moment to fill the queue and fall asleep (NOT a verdict and not needed by the oracle: after
       * a clear the queue is EMPTY, so an unfinished producer either runs and enqueues, or sleeps and must have been
       * released by the clear - the enqueue counter moves in both cases).  A queue that is merely not full can keep
       * sleepers waiting (auto-reset event: one release per dequeue), so "full" may never come back: bounded. */
      end = now_ms () + 30;
      while (!async_queue_is_full (q) && now_ms () < end)
        {
          all_done = 1;
          for (int i = 0; i < nprod; i++)
            if (!__atomic_load_n (&pr[i].done, __ATOMIC_ACQUIRE))
              all_done = 0;
          if (all_done)
            break;
          usleep (200);
        }
      if (all_done)
        break;
      if (rng_next (&cs) % 4 == 0)
        usleep (rng_next (&cs) % 2000);	/* let more writers fall asleep on not_full */
      if (rng_next (&cs) % 3 == 0)
        {
          /* a few ordinary dequeues */
          for (int k = (int) (rng_next (&cs) % 3) + 1; k > 0; k--)
            {
              qmsg_t m;
              size_t sz = 0;
              if (async_queue_dequeue (q, &m, sizeof m, &sz))
                {
                  if (sz != sizeof m || m.p >= (uint32_t) nprod || m.v >= (uint32_t) nper)
                    garbled++;
                  else if ((int) m.v < next[m.p])
                    dup++;
                  else
                    next[m.p] = (int) m.v + 1;
                }
            }
          continue;
        }
      async_queue_get_stats (q, &st);
      e0 = st.enqueue_count;
      async_queue_clear (q);
      clears++;
      /* the queue was full, so every unfinished producer is inside enqueue (asleep or about to be): one of them must
       * get its message in now */
      end = now_ms () + CLEAR_LIVE_MS;
      for (;;)
        {
          async_queue_get_stats (q, &st);
          if (st.enqueue_count > e0)
            break;
          all_done = 1;
          for (int i = 0; i < nprod; i++)
            if (!__atomic_load_n (&pr[i].done, __ATOMIC_ACQUIRE))
              all_done = 0;
          if (all_done)
            break;
          if (now_ms () > end)
            {
              why = "writers-left-asleep-after-clear";
              break;
            }
          usleep (200);
        }
      if (why)
        break;
    }
  if (!why)
    for (int i = 0; i < nprod; i++)
      pthread_join (th[i], 0);
  if (why)
    emit ("mt qclear bad %s clears=%ld", why, clears);
  else if (dup || garbled || q->head >= q->capacity || q->tail >= q->capacity)
    emit ("mt qclear bad duplicated=%ld garbled=%ld", dup, garbled);
  else
    emit ("mt qclear ok");
}

/* mt console <nlines> <mode> <seed>: the REAL console worker (lib/async/console_worker.c) reading a pipe installed as
 * stdin, the line queue and completion key exactly as src/comm.c sets them up (capacity 256, DROP_OLDEST).
 *   mode 0  feed all lines, consume everything, then shutdown
 *   mode 1  shutdown while the feeder is still writing
 *   mode 2  shutdown immediately after init (the thread may not have run yet)
 *   mode 3  close the pipe (EOF): the worker ends by itself, shutdown afterwards
 * Oracle: the concatenation of the dequeued chunks is a prefix of the bytes written (all of them in modes 0 and 3, no
 * message is dropped because the consumer keeps up); one completion with the console key per chunk, its data = chunk
 * length, never before the chunk is in the queue; shutdown(5000) comes back true within its sleep bound; afterwards
 * state STOPPED and no further completion or message appears. */
typedef struct
{
  int fd, nlines;
  uint64_t seed;
  volatile int stop, written;
  volatile long sent, consumed;	/* bytes written by the feeder / bytes the consumer has dequeued */
} feeder_t;

/* flow control: the feeder never runs more than this many bytes (about 100 lines, far below the 256 slots of the
 * line queue) ahead of the consumer - on a correct implementation DROP_OLDEST can then never drop, however the
 * threads are scheduled (no verdict depends on the consumer keeping up in time) */
#define FEED_WINDOW 3000

static void console_line (char *buf, size_t cap, int i)
{
  snprintf (buf, cap, "line-%05d-%.*s\n", i, i % 23, "abcdefghijklmnopqrstuvwxyz");
}

static void *feeder_thread (void *arg)
{
  feeder_t *f = (feeder_t *) arg;
  char line[128];
  for (int i = 0; i < f->nlines && !__atomic_load_n (&f->stop, __ATOMIC_ACQUIRE); i++)
    {
      console_line (line, sizeof line, i);
      while (__atomic_load_n (&f->sent, __ATOMIC_ACQUIRE) - __atomic_load_n (&f->consumed, __ATOMIC_ACQUIRE) > FEED_WINDOW
             && !__atomic_load_n (&f->stop, __ATOMIC_ACQUIRE))
        usleep (200);
      {
        /* the write end is non-blocking: a full pipe (nobody reads after a shutdown) must not hang the feeder */
        size_t off = 0, len = strlen (line);
        while (off < len && !__atomic_load_n (&f->stop, __ATOMIC_ACQUIRE))
          {
            long w = syscall (SYS_write, f->fd, line + off, len - off);
            if (w > 0)
              off += (size_t) w;
            else if (w < 0 && errno != EAGAIN && errno != EINTR)
              return 0;
            else
              usleep (200);
          }
        if (off < len)
          return 0;
      }
      __atomic_fetch_add (&f->sent, (long) strlen (line), __ATOMIC_ACQ_REL);
      __atomic_store_n (&f->written, i + 1, __ATOMIC_RELEASE);
      if (rng_next (&f->seed) % 3 == 0)
        usleep (rng_next (&f->seed) % 300);
    }
  return 0;
}

static void mt_console (int nlines, int mode, uint64_t seed)
{
  int pfd[2], saved_stdin, sleeps = 0, rc;
  pthread_t fth;
  feeder_t fd_;
  console_worker_context_t *cw_;
  async_queue_t *lq;
  char *expect, *got;
  size_t elen = 0, glen = 0, gcap;
  long completions = 0, chunks = 0, bad_key = 0, early = 0, end;
  const char *why = 0;
  io_event_t ev[16];
  char line[128];
  if (nlines < 1 || nlines > 5000 || pipe (pfd) < 0)
    {
      emit ("mt console bad arguments");
      return;
    }
  expect = (char *) calloc (1, (size_t) nlines * 64 + 64);
  gcap = (size_t) nlines * 64 + 4096 + 64;
  got = (char *) calloc (1, gcap);
  for (int i = 0; i < nlines; i++)
    {
      console_line (line, sizeof line, i);
      memcpy (expect + elen, line, strlen (line));
      elen += strlen (line);
    }
  fcntl (pfd[1], F_SETFL, fcntl (pfd[1], F_GETFL, 0) | O_NONBLOCK);
  saved_stdin = dup (0);
  dup2 (pfd[0], 0);
  close (pfd[0]);
  the_rt ();
  lq = async_queue_create (256, CONSOLE_MAX_LINE, ASYNC_QUEUE_DROP_OLDEST);
  fd_.fd = pfd[1], fd_.nlines = nlines, fd_.seed = seed * 31 + 7, fd_.stop = 0, fd_.written = 0;
  fd_.sent = 0, fd_.consumed = 0;
  /* console_worker.c posts through the EPOLL back end (it is linked against libasync), so this run always uses it */
  set_gate_fds ();
  __atomic_store_n (&console_jitter, seed | 1, __ATOMIC_RELEASE);
  cw_ = use_poll ? 0 : console_worker_init (rt, lq, CONSOLE_COMPLETION_KEY);
  if (!cw_ || !cw_->worker)
    {
      emit ("mt console bad init-failed");
      goto out;
    }
  if (mode != 2)
    pthread_create (&fth, 0, feeder_thread, &fd_);
  end = now_ms () + MT_LIVE_MS;
  while (mode == 0 || mode == 3 || (mode == 1 && __atomic_load_n (&fd_.written, __ATOMIC_ACQUIRE) < nlines / 2 + 1))
    {
      struct timeval tv = { 0, 20000 };
      int n = async_runtime_wait (rt, ev, 16, &tv);
      for (int i = 0; i < n; i++)
        {
          char chunk[CONSOLE_MAX_LINE];
          size_t sz = 0;
          if (ev[i].completion_key != CONSOLE_COMPLETION_KEY)
            {
              bad_key++;
              continue;
            }
          completions++;
          /* the chunk was enqueued BEFORE the completion was posted: it must be there */
          if (!async_queue_dequeue (lq, chunk, sizeof chunk, &sz))
            {
              early++;
              why = "completion-posted-before-its-chunk-was-enqueued";
            }
          else
            {
              chunks++;
              if (sz == 0 || chunk[sz - 1] != 0 || sz - 1 != (size_t) ev[i].bytes_transferred)
                why = "chunk-length-differs-from-completion-data";
              if (glen + sz < gcap)
                memcpy (got + glen, chunk, sz - 1), glen += sz - 1;
              __atomic_store_n (&fd_.consumed, (long) glen, __ATOMIC_RELEASE);
            }
        }
      if (glen >= elen || why)
        break;
      if (now_ms () > end)
        {
          why = "lines-not-delivered";
          break;
        }
    }
  if (mode == 3)
    {
      /* EOF: the worker leaves its loop by itself; its state must become STOPPED (condition, liveness bound) */
      pthread_join (fth, 0);
      close (pfd[1]);
      pfd[1] = -1;
      end = now_ms () + MT_LIVE_MS;
      while (async_worker_get_state (cw_->worker) != ASYNC_WORKER_STOPPED && now_ms () < end)
        usleep (500);
      if (async_worker_get_state (cw_->worker) != ASYNC_WORKER_STOPPED)
        why = "worker-alive-after-eof";
    }
  /* shutdown = signal_stop + timed join; sleeps of the join are counted (interposed nanosleep), not timed */
  {
    int t = 5000, worst = 0;
    /* the worker looks at the stop event at least every 10 ms of ITS time; on a slow machine one timed join may
     * expire before the thread was scheduled: every shutdown must come back within its sleep bound, one of them
     * (liveness bound: 6 x 5 s) with true */
    rc = 0;
    for (int tries = 0; tries < 6 && !rc; tries++)
      {
        sleeps = 0;
        sleep_counter = &sleeps;
        rc = console_worker_shutdown (cw_, t) ? 1 : 0;
        sleep_counter = 0;
        if (sleeps > worst)
          worst = sleeps;
      }
    if (!rc)
      why = "shutdown-timed-out";
    else if (worst > (t + POLL_MS - 1) / POLL_MS)
      why = "shutdown-too-many-sleeps";
    else if (async_worker_get_state (cw_->worker) != ASYNC_WORKER_STOPPED)
      why = "state-not-stopped-after-shutdown";
  }
  __atomic_store_n (&fd_.stop, 1, __ATOMIC_RELEASE);
  if (mode == 0 || mode == 1)
    pthread_join (fth, 0);
  /* the feeder may have written more: none of it may be consumed by the (finished) worker */
  {
    async_queue_stats_t s0, s1;
    struct timeval tv = { 0, 0 };
    char chunk[CONSOLE_MAX_LINE];
    size_t sz;
    int n;
    async_queue_get_stats (lq, &s0);
    if (pfd[1] >= 0)
      {
        console_line (line, sizeof line, 99999);
        syscall (SYS_write, pfd[1], line, strlen (line));
      }
    usleep (30000);		/* three select periods of the worker, were it still alive */
    async_queue_get_stats (lq, &s1);
    if (rc && s1.enqueue_count != s0.enqueue_count)
      why = "worker-ran-after-shutdown";
    /* drain what was posted before the stop: still chunk-for-completion, still a prefix of the input */
    while ((n = async_runtime_wait (rt, ev, 16, &tv)) > 0)
      for (int i = 0; i < n; i++)
        if (ev[i].completion_key == CONSOLE_COMPLETION_KEY)
          completions++;
        else
          bad_key++;
    while (async_queue_dequeue (lq, chunk, sizeof chunk, &sz))
      {
        chunks++;
        if (sz > 0 && glen + sz < gcap)
          memcpy (got + glen, chunk, sz - 1), glen += sz - 1;
      }
    if (s1.dropped_count)
      why = why ? why : "line-dropped-although-consumer-kept-up";
  }
  if (!why && (glen > elen || memcmp (got, expect, glen)))
    why = "bytes-garbled-or-reordered";
  if (!why && (mode == 0 || mode == 3) && glen != elen)
    why = "bytes-lost";
  if (!why && (bad_key || early || completions != chunks))
    why = "completions-do-not-match-chunks";
  if (why)
    emit ("mt console bad %s completions=%ld chunks=%ld early=%ld bytes=%lu/%lu", why, completions, chunks, early,
          (unsigned long) glen, (unsigned long) elen);
  else
    emit ("mt console ok");
  console_worker_destroy (cw_);
out:
  __atomic_store_n (&console_jitter, (uint64_t) 0, __ATOMIC_RELEASE);
  dup2 (saved_stdin, 0);
  close (saved_stdin);
  if (pfd[1] >= 0)
    close (pfd[1]);
  async_queue_destroy (lq);
  free (expect);
  free (got);
}

/* ---- case loop ------------------------------------------------------------------------------------------ */

static int split (char *line, char **tok, int max)
{
  int n = 0;
  char *p = line;
  while (*p && n < max)
    {
      while (*p == ' ')
        p++;
      if (!*p)
        break;
      tok[n++] = p;
      while (*p && *p != ' ')
        p++;
      if (*p)
        *p++ = 0;
    }
  return n;
}

static void run_line (char *line)
{
  char *tok[16];
  char copy[512];
  int n;
  snprintf (copy, sizeof copy, "%s", line);
  n = split (copy, tok, 16);
  if (n == 1 && !strcmp (tok[0], "#poll") && !rt)
    {
      if (pollrt_compiled ())
        use_poll = 1;
      else
        emit ("crash poll-back-end-not-compiled");
      return;
    }
  if (n == 0 || tok[0][0] == '#')
    return;
  if (!strcmp (tok[0], "post") && n == 4)
    {
      unsigned long k = strtoul (tok[2], 0, 10), d = strtoul (tok[3], 0, 10);
      int rc = RT_post (the_rt (), k, d);
      emit ("post %s %lu %lu %d", tok[1], k, d, rc);
    }
  else if (!strcmp (tok[0], "wakeup") && n == 1)
    emit ("wakeup %d", RT_wakeup (the_rt ()));
  else if (!strcmp (tok[0], "wait") && n == 2)
    cmd_wait (atoi (tok[1]));
  else if (!strcmp (tok[0], "wbegin") && n == 2)
    cmd_wbegin (atoi (tok[1]));
  else if (!strcmp (tok[0], "wread") && n == 1)
    cmd_wgo (1, "wread");
  else if (!strcmp (tok[0], "wend") && n == 1)
    cmd_wgo (2, "wend-did-not-return");
  else if (!strcmp (tok[0], "qnew") && n == 4)
    {
      if (q)
        emit ("skip queue-exists");
      else
        {
          q_flags = atoi (tok[3]);
          q = async_queue_create (strtoul (tok[1], 0, 10), strtoul (tok[2], 0, 10), (async_queue_flags_t) q_flags);
          emit ("qnew %s %s %s %s", tok[1], tok[2], tok[3], q ? "ok" : "null");
        }
    }
  else if (!strcmp (tok[0], "enq") && n == 4)
    cmd_enq (atoi (tok[1]), atoi (tok[2]), atoi (tok[3]));
  else if (!strcmp (tok[0], "deq") && n == 2)
    cmd_deq (atoi (tok[1]));
  else if (!strcmp (tok[0], "qstat") && n == 1)
    cmd_qstat ();
  else if (!strcmp (tok[0], "qclear") && n == 1)
    {
      if (!q)
        emit ("skip no-queue");
      else
        {
          async_queue_clear (q);
          emit ("qclear");
          /* the queue is empty now: a writer asleep on not_full must be released by the clear itself (waited for as a
           * CONDITION; the bound is liveness only and is reached only when the writer was left asleep) */
          if (bw.pending && !clear_dead && !wait_flag (&bw.done, CLEAR_LIVE_MS))
            clear_dead = 1;	/* left asleep: do not wait again in this case (the oracle flags the missing `unblocked`) */
          if (bw.pending && __atomic_load_n (&bw.done, __ATOMIC_ACQUIRE))
            {
              pthread_join (bw.th, 0);
              bw.pending = 0;
              if (bw.rc)
                emit ("unblocked %u %u", bw.p, bw.v);
              else
                emit ("enq %u %u %u fail", bw.p, bw.v, bw.size);
            }
        }
    }
  else if (tok[0][0] == 'w' && worker_cmd (tok, n))
    ;
  else if (tok[0][0] == 't' && timer_cmd (tok, n))
    ;
  else if (!strcmp (tok[0], "mt") && n >= 2)
    {
      long a[6] = { 0 };
      for (int i = 2; i < n && i < 8; i++)
        a[i - 2] = atol (tok[i]);
      if (!strcmp (tok[1], "post") && n == 6)
        mt_post (a[0], a[1], a[2], a[3]);
      else if (!strcmp (tok[1], "queue") && n == 7)
        mt_queue (a[0], a[1], a[2], a[3], a[4]);
      else if (!strcmp (tok[1], "worker") && n == 4)
        mt_worker (a[0], a[1]);
      else if (!strcmp (tok[1], "timer") && n == 5)
        mt_timer (a[0], a[1], a[2]);
      else if (!strcmp (tok[1], "qclear") && n == 6)
        mt_qclear (a[0], a[1], a[2], a[3]);
      else if (!strcmp (tok[1], "console") && n == 5)
        mt_console (a[0], a[1], a[2]);
      else
        emit ("mt %s bad arguments", tok[1]);
    }
  else
    emit ("badcmd %s", line);
}

static char *read_line (FILE * f)
{
  static char *buf = 0;
  static size_t cap = 0;
  ssize_t n = getline (&buf, &cap, f);
  if (n < 0)
    return 0;
  while (n > 0 && (buf[n - 1] == '\n' || buf[n - 1] == '\r'))
    buf[--n] = 0;
  return buf;
}

/* canonical `race <function> <function>` lines from the ThreadSanitizer reports in the child's stderr */
static void relay_races (const char *path)
{
  FILE *f = fopen (path, "r");
  char *line = 0;
  size_t cap = 0;
  char seen[64][200];
  int nseen = 0;
  if (!f)
    return;
  while (getline (&line, &cap, f) >= 0)
    {
      char *p = strstr (line, "SUMMARY: ThreadSanitizer: ");
      if (p)
        {
          char kind[64] = "", where[200] = "", fn[200] = "";
          /* SUMMARY: ThreadSanitizer: data race file:line in function */
          char *in = strstr (p, " in ");
          char *k = p + strlen ("SUMMARY: ThreadSanitizer: ");
          if (in)
            sscanf (in + 4, "%199s", fn);
          {
            char *sp = strrchr (k, '/');
            (void) sp;
          }
          snprintf (kind, sizeof kind, "%.*s", (int) strcspn (k, "/("), k);
          for (char *c = kind; *c; c++)
            if (*c == ' ')
              *c = '-';
          while (kind[0] && kind[strlen (kind) - 1] == '-')
            kind[strlen (kind) - 1] = 0;
          snprintf (where, sizeof where, "%s %s", kind, fn[0] ? fn : "?");
          int dup = 0;
          for (int i = 0; i < nseen; i++)
            if (!strcmp (seen[i], where))
              dup = 1;
          if (!dup && nseen < 64)
            strcpy (seen[nseen++], where);
        }
    }
  free (line);
  fclose (f);
  /* sorted for stability */
  for (int i = 0; i < nseen; i++)
    for (int j = i + 1; j < nseen; j++)
      if (strcmp (seen[i], seen[j]) > 0)
        {
          char t[200];
          strcpy (t, seen[i]), strcpy (seen[i], seen[j]), strcpy (seen[j], t);
        }
  for (int i = 0; i < nseen; i++)
    printf ("race %s\n", seen[i]);
}

int main (int argc, char **argv)
{
  const char *scratch = "/tmp";
  const char *keepdir = 0;
  int timeout = 150;
  char *line;
  for (int i = 1; i < argc; i++)
    {
      if (!strcmp (argv[i], "--scratch") && i + 1 < argc)
        scratch = argv[++i];
      else if (!strcmp (argv[i], "--conf") && i + 1 < argc)
        i++;
      else if (!strcmp (argv[i], "--keep-stderr") && i + 1 < argc)
        keepdir = argv[++i];
      else if (!strcmp (argv[i], "--timeout") && i + 1 < argc)
        timeout = atoi (argv[++i]);
    }
  signal (SIGPIPE, SIG_IGN);
  while ((line = read_line (stdin)))
    {
      char id[128], outpath[512], errpath[512];
      char **cmds = 0;
      int ncmd = 0, cap = 0, status = 0;
      pid_t pid;
      if (strncmp (line, "case ", 5))
        continue;
      snprintf (id, sizeof id, "%s", line + 5);
      while ((line = read_line (stdin)) && strcmp (line, "end"))
        {
          if (ncmd == cap)
            cmds = (char **) realloc (cmds, sizeof (char *) * (cap = cap ? cap * 2 : 64));
          cmds[ncmd++] = strdup (line);
        }
      snprintf (outpath, sizeof outpath, "%s/c19-%d.out", scratch, (int) getpid ());
      if (keepdir)
        snprintf (errpath, sizeof errpath, "%s/%s.stderr", keepdir, id);
      else
        snprintf (errpath, sizeof errpath, "%s/c19-%d.err", scratch, (int) getpid ());
      fflush (stdout);
      pid = fork ();
      if (pid == 0)
        {
          int fd = open (errpath, O_WRONLY | O_CREAT | O_TRUNC, 0644);
          dup2 (fd, 2);
          close (fd);
          out = fopen (outpath, "w");
          alarm (timeout);
          for (int i = 0; i < ncmd; i++)
            run_line (cmds[i]);
          fflush (out);
          fflush (stderr);
          exit (0);		/* not _exit: ThreadSanitizer prints its summary and sets the exit code at exit */
        }
      waitpid (pid, &status, 0);
      printf ("case %s\n", id);
      {
        FILE *f = fopen (outpath, "r");
        char *l = 0;
        size_t c = 0;
        if (f)
          {
            while (getline (&l, &c, f) >= 0)
              fputs (l, stdout);
            free (l);
            fclose (f);
          }
      }
      relay_races (errpath);
      if (WIFSIGNALED (status))
        printf ("crash %s\n", WTERMSIG (status) == SIGALRM ? "timeout" : "signal");
      else if (WIFEXITED (status) && WEXITSTATUS (status) != 0 && WEXITSTATUS (status) != 66)
        printf ("crash exit %d\n", WEXITSTATUS (status));
      printf ("end\n");
      fflush (stdout);
      unlink (outpath);
      if (!keepdir)
        unlink (errpath);
      for (int i = 0; i < ncmd; i++)
        free (cmds[i]);
      free (cmds);
    }
  return 0;
}
