/* C19 harness, third executable (ThreadSanitizer build): the FULL backend() loop of the initialised driver with the
 * REAL heart-beat timer thread (lib/port/timer.cpp running the real heartbeat_timer_callback) and the REAL console
 * worker thread (lib/async/console_worker.c reading a pipe installed as stdin), all three threads of the running driver.
 *
 *   mt backend <cycles> <lines> <interval_us>
 *
 * backend() is entered with console mode on and every timer flag set; platform_timer_start is wrapped (-Wl,--wrap) only
 * to shorten the interval from 2 s to <interval_us> - thread, callback, flag and wake-up are the driver's own.  The guarded
 * cycle hook (src/backend.c, verif_backend_cycle_hook) counts the cycles, writes a console line every third cycle and
 * leaves the loop after <cycles> cycles once all <lines> lines were written.  Verdict: `mt backend ok`, or
 * `mt backend bad <why>` when the loop made no progress (a tick that does not wake the blocking poll would show here:
 * without events the poll time-out is 60 s) - plus the `race ...` lines the plugin extracts from ThreadSanitizer's
 * reports in the kept stderr. */
#include "vh.h"
#include <unistd.h>
#include <fcntl.h>
#include <errno.h>
#include <time.h>
#include <sys/socket.h>
#include <netinet/in.h>
#include <arpa/inet.h>
#include "src/main.h"
#include "port/timer.h"
#include "async/async_runtime.h"

extern int (*verif_backend_cycle_hook) (void);

static unsigned long be_interval_us = 2000;
static long cycles, want_cycles, fed, want_lines;
static int cons_w = -1;
static long t_start_ms;

static long now_ms (void)
{
  struct timespec ts;
  clock_gettime (CLOCK_MONOTONIC, &ts);
  return ts.tv_sec * 1000L + ts.tv_nsec / 1000000L;
}

timer_error_t __real_platform_timer_start (platform_timer_t * t, unsigned long us, timer_callback_t cb);
timer_error_t __wrap_platform_timer_start (platform_timer_t * t, unsigned long us, timer_callback_t cb)
{
  (void) us;
  return __real_platform_timer_start (t, be_interval_us, cb);
}

static int hook (void)
{
  cycles++;
  if (fed < want_lines && cycles % 3 == 0)
    {
      char line[64];
      int n = snprintf (line, sizeof line, "c19 console line %ld\n", fed);
      if (write (cons_w, line, n) == n)
        fed++;
    }
  /* liveness only: 60 s is the poll time-out of an idle backend - if the ticks did not wake it, it would sit there */
  if (now_ms () - t_start_ms > 50000)
    return 1;
  return cycles >= want_cycles && fed >= want_lines;
}

static int pick_port (void)
{
  for (int a = 0; a < 200; a++)
    {
      int p = 20000 + (int) ((getpid () * 7 + a * 13) % 20000);
      int s = socket (AF_INET, SOCK_STREAM, 0), one = 1;
      struct sockaddr_in sa;
      memset (&sa, 0, sizeof sa);
      sa.sin_family = AF_INET;
      sa.sin_port = htons (p);
      sa.sin_addr.s_addr = INADDR_ANY;
      setsockopt (s, SOL_SOCKET, SO_REUSEADDR, &one, sizeof one);
      if (bind (s, (struct sockaddr *) &sa, sizeof sa) == 0)
        {
          close (s);
          return p;
        }
      close (s);
    }
  return 4000;
}

static int be_cmd (char *line)
{
  long a, b, c;
  int pp[2], fd;
  if (sscanf (line, "mt backend %ld %ld %ld", &a, &b, &c) != 3)
    return 0;
  want_cycles = a, want_lines = b, be_interval_us = c > 0 ? (unsigned long) c : 2000;
  cycles = fed = 0;
  if (pipe (pp) < 0)
    {
      vh_out ("mt backend bad pipe");
      return 1;
    }
  dup2 (pp[0], STDIN_FILENO);
  close (pp[0]);
  cons_w = pp[1];
  fd = open ("/dev/null", O_WRONLY);
  fflush (stdout);
  dup2 (fd, STDOUT_FILENO);	/* the console user's output */
  close (fd);
  external_port[0].port = pick_port ();
  MAIN_OPTION (console_mode) = 1;
  MAIN_OPTION (timer_flags) = TIMER_FLAG_HEARTBEAT | TIMER_FLAG_CALLOUT | TIMER_FLAG_RESET;
  verif_backend_cycle_hook = hook;
  t_start_ms = now_ms ();
  backend ();
  if (cycles < want_cycles || fed < want_lines)
    vh_out ("mt backend bad no-progress cycles=%ld/%ld lines=%ld/%ld", cycles, want_cycles, fed, want_lines);
  else
    vh_out ("mt backend ok");
  return 1;
}

int main (int argc, char **argv)
{
  return vh_main (argc, argv, be_cmd);
}
