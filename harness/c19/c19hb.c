/* C19 harness, runtime data-race clause for `heart_beat_flag` (ThreadSanitizer build only).
 *
 * Unit style: src/backend.c is #included so that the REAL static `heartbeat_timer_callback` (run by the real
 * lib/port timer thread) and the REAL static `call_heart_beat` (run by this thread, as backend() does when it
 * sees the flag) are reachable.  The driver is not initialised: with timer_flags == 0 call_heart_beat only
 * clears the flag and reads the clock.  Commands:  hbrace <ms>   ->  `hbrace <ms> done` (+ `race ...` lines)
 *                                                 hbowed        ->  `hbowed kept` (see below)
 */
#include "src/backend.c"
#include "src/stem.h"
#include <sys/wait.h>
#include <fcntl.h>

static char *rd (FILE * f)
{
  static char *buf = 0;
  static size_t cap = 0;
  ssize_t n = getline (&buf, &cap, f);
  if (n < 0)
    return 0;
  while (n > 0 && (buf[n - 1] == '\n' || buf[n - 1] == '\r'))
    buf[--n] = 0;
  return buf;
}

static void relay_races (const char *path)
{
  FILE *f = fopen (path, "r");
  char *line = 0;
  size_t cap = 0;
  char seen[32][200];
  int nseen = 0;
  if (!f)
    return;
  while (getline (&line, &cap, f) >= 0)
    {
      char *p = strstr (line, "SUMMARY: ThreadSanitizer: ");
      char *in = p ? strstr (p, " in ") : 0;
      if (p && in)
        {
          char fn[200] = "", where[200];
          int dup = 0;
          sscanf (in + 4, "%199s", fn);
          snprintf (where, sizeof where, "data-race %s", fn);
          for (int i = 0; i < nseen; i++)
            if (!strcmp (seen[i], where))
              dup = 1;
          if (!dup && nseen < 32)
            strcpy (seen[nseen++], where);
        }
    }
  free (line);
  fclose (f);
  for (int i = 0; i < nseen; i++)
    for (int j = i + 1; j < nseen; j++)
      if (strcmp (seen[i], seen[j]) > 0)
        {
          char t[200];
          strcpy (t, seen[i]), strcpy (seen[i], seen[j]), strcpy (seen[j], t);
        }
  for (int i = 0; i < nseen; i++)
    printf ("race %s\n", seen[i]);
}

/* `hbowed`: a tick that arrives INSIDE call_heart_beat must still be owed when it returns.
 * call_heart_beat reads the clock (`time (&current_time)`) right behind its first statement; time() is interposed in
 * this executable and, when armed, runs the REAL heartbeat_timer_callback at that point - a tick landing in the round,
 * deterministically, on the calling thread (no timing, no second thread).  With `SET_HEART_BEAT_FLAG(0)` as the first
 * statement the flag is set again by that tick, the round (`while (!HEART_BEAT_FLAG())`) is cut short and the flag is
 * still set on return: `hbowed kept`.  A clear behind the round wipes it: `hbowed swallowed`. */
static int inject_tick;

time_t time (time_t * t)
{
  struct timespec ts;
  clock_gettime (CLOCK_REALTIME, &ts);
  if (inject_tick)
    {
      inject_tick = 0;
      heartbeat_timer_callback ();
    }
  if (t)
    *t = ts.tv_sec;
  return ts.tv_sec;
}

static void hbowed (FILE * out)
{
  static program_t prog;
  static object_t ob;
  static heart_beat_t hbs[3];
  int kept, saved_flags = MAIN_OPTION (timer_flags);
  memset (&prog, 0, sizeof prog);
  memset (&ob, 0, sizeof ob);
  prog.heart_beat = -1;		/* never calls into the interpreter */
  ob.prog = &prog;
  for (int i = 0; i < 3; i++)
    hbs[i].ob = &ob, hbs[i].heart_beat_ticks = 5, hbs[i].time_to_heart_beat = 5;
  heart_beats = hbs;
  num_hb_objs = 3;
  MAIN_OPTION (timer_flags) = TIMER_FLAG_HEARTBEAT;
#ifdef HEART_BEAT_FLAG
  SET_HEART_BEAT_FLAG (1);
#else
  heart_beat_flag = 1;
#endif
  inject_tick = 1;
  call_heart_beat ();
#ifdef HEART_BEAT_FLAG
  kept = HEART_BEAT_FLAG ();
#else
  kept = heart_beat_flag;
#endif
  if (inject_tick)
    fprintf (out, "hbowed not-injected\n");	/* call_heart_beat no longer reads the clock: the harness must be adapted */
  else
    fprintf (out, "hbowed %s\n", kept ? "kept" : "swallowed");
  inject_tick = 0;
  heart_beats = 0;
  num_hb_objs = 0;
  MAIN_OPTION (timer_flags) = saved_flags;
#ifdef HEART_BEAT_FLAG
  SET_HEART_BEAT_FLAG (0);
#else
  heart_beat_flag = 0;
#endif
}

static void hbrace (int ms, FILE * out)
{
  platform_timer_t t;
  struct timespec ts;
  long end;
  int ticks = 0;
  platform_timer_init (&t);
  platform_timer_start (&t, 500, heartbeat_timer_callback);	/* the real callback, every 0.5 ms */
  /* the timer thread may need a long time to start under ThreadSanitizer on a loaded machine: the window of
   * `ms` milliseconds starts at the first tick seen (at most 20 s are waited for it) */
  long hard_end;
  int started = 0;
  clock_gettime (CLOCK_MONOTONIC, &ts);
  hard_end = ts.tv_sec * 1000L + ts.tv_nsec / 1000000L + 20000;
  end = hard_end;
  for (;;)
    {
      /* what backend() does at the end of every cycle */
      /* what backend() does at the end of every cycle (same accessor as backend.c, when it has one) */
#ifdef HEART_BEAT_FLAG
      if (HEART_BEAT_FLAG ())
#else
      if (heart_beat_flag)
#endif
        {
          call_heart_beat ();
          ticks++;
          if (!started)
            {
              started = 1;
              clock_gettime (CLOCK_MONOTONIC, &ts);
              end = ts.tv_sec * 1000L + ts.tv_nsec / 1000000L + ms;
            }
        }
      clock_gettime (CLOCK_MONOTONIC, &ts);
      if (ts.tv_sec * 1000L + ts.tv_nsec / 1000000L > end)
        break;
    }
  platform_timer_cleanup (&t);
  fprintf (out, "hbrace %d %s\n", ms, ticks > 0 ? "done" : "no-tick");
}

int main (int argc, char **argv)
{
  const char *scratch = "/tmp";
  char *line;
  for (int i = 1; i < argc; i++)
    if (!strcmp (argv[i], "--scratch") && i + 1 < argc)
      scratch = argv[++i];
  init_stem (0, 0, NULL);	/* allocates the option block read by MAIN_OPTION(); timer_flags stay 0 */
  while ((line = rd (stdin)))
    {
      char id[128], outpath[512], errpath[512];
      char *cmds[64];
      int ncmd = 0, status = 0;
      pid_t pid;
      if (strncmp (line, "case ", 5))
        continue;
      snprintf (id, sizeof id, "%s", line + 5);
      while ((line = rd (stdin)) && strcmp (line, "end"))
        if (ncmd < 64)
          cmds[ncmd++] = strdup (line);
      snprintf (outpath, sizeof outpath, "%s/c19hb-%d.out", scratch, (int) getpid ());
      snprintf (errpath, sizeof errpath, "%s/c19hb-%d.err", scratch, (int) getpid ());
      fflush (stdout);
      pid = fork ();
      if (pid == 0)
        {
          int fd = open (errpath, O_WRONLY | O_CREAT | O_TRUNC, 0644);
          FILE *out = fopen (outpath, "w");
          dup2 (fd, 2);
          close (fd);
          alarm (60);
          for (int i = 0; i < ncmd; i++)
            if (!strncmp (cmds[i], "hbrace ", 7))
              hbrace (atoi (cmds[i] + 7), out);
            else if (!strcmp (cmds[i], "hbowed"))
              hbowed (out);
            else if (cmds[i][0] != '#')
              fprintf (out, "badcmd %s\n", cmds[i]);
          fflush (out);
          exit (0);
        }
      waitpid (pid, &status, 0);
      printf ("case %s\n", id);
      {
        FILE *f = fopen (outpath, "r");
        char *l = 0;
        size_t c = 0;
        if (f)
          {
            while (getline (&l, &c, f) >= 0)
              fputs (l, stdout);
            fclose (f);
          }
      }
      relay_races (errpath);
      if (WIFSIGNALED (status))
        printf ("crash signal\n");
      else if (WIFEXITED (status) && WEXITSTATUS (status) != 0 && WEXITSTATUS (status) != 66)
        printf ("crash exit %d\n", WEXITSTATUS (status));
      printf ("end\n");
      fflush (stdout);
      unlink (outpath);
      if (!getenv ("C19HB_KEEP"))
        unlink (errpath);
    }
  return 0;
}
