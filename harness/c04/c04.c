/* C04 harness (system style): generic commands of vh.c plus
 *
 *   stack <n>                 end_of_stack = start_of_stack + n - 5   (the formula of reset_interpreter; n <= the
 *                             StackSize the driver was started with, so the real allocation is never exceeded)
 *   depth <n>                 CONFIG_INT (__MAX_CALL_DEPTH__) = n      (n <= the MaxCallDepth the driver started with)
 *   ev <oid> <fn> [args...]   one driver-started evaluation: eval_cost = MaxEvaluationCost, apply inside a driver
 *                             level error context.  Prints
 *                               r ret <canonical value>        the evaluation returned to the driver normally
 *                               r err es=<bits>                an error reached the driver-level context; <bits> is
 *                                                              error_state as the driver sees it (1 = stack/depth,
 *                                                              2 = evaluation cost, 0 = ordinary error)
 *                             followed by one observation line (not compared with the model, judged only)
 *                               obs ticks=<instructions executed> maxcsp=<max csp index> maxsp=<max sp index>
 *                                   csp=<csp index after> sp=<sp index after> cost=<budget> depth=<MaxCallDepth> stack=<n>
 *                                   maxtouch=<highest slot at or above <n> that was written, -1 = none>
 *                                   cost0=<eval_cost the evaluation started with>
 *   lpc <path> <hex>          write generated LPC source to <mudlib>/<path>
 *   shape <term>              ignored (the abstract shape of the generated program, read by the model)
 *   conf <variant>            ignored (the plugin starts one harness process per variant: master with / without
 *                             error_handler () x ArgumentsInTrace / LocalVariablesInTrace)
 *   reconf <Key> <value>      re-read the config file through init_config() with that key replaced
 *   mset <fn> <int>           master()-><fn>(<int>): switches of the C04 verification master
 *   sz <constructor> <args...> size decision of one value constructor, evaluated by the real driver through the LPC
 *                             object /c04/sizes (see props/c04.py for the argument conventions); prints
 *                               sz err | sz ok <size>
 *
 * The instruction counter / high-water marks come from the guarded hook in eval_instruction
 * (`verif hook: instruction counter`).
 */
#include "vh.h"
#include <unistd.h>
#include "src/interpret.h"

#ifdef NEOLITH_VERIF
extern long long verif_insn_count;
extern long verif_max_csp;
extern long verif_max_sp;
/* `verif hook: per-opcode execution histogram` (weak: a tree without that hook still links, no `#ops` line then) */
extern unsigned long verif_op_hist[256] __attribute__ ((weak));
#else
static long long verif_insn_count;
static long verif_max_csp, verif_max_sp;
#endif

#ifndef NEOLITH_VERIF
static unsigned long *verif_op_hist = 0;
#endif
/* the backward-branch opcodes found in eval_instruction by props/c04.py (gen_loop), passed as
 * -DC04_BACKOPS={"F_BBRANCH",F_BBRANCH},... : a name the source no longer defines breaks the harness build (the tie) */
#include "efuns_opcode.h"
#ifndef C04_BACKOPS
#define C04_BACKOPS
#endif
static const struct { const char *name; int op; } c04_backops[] = { C04_BACKOPS {0, 0} };

#define C04_SENTINEL 0x7e57
#ifndef C04_STACK_SLACK
#define C04_STACK_SLACK 5	/* `size - 5` of reset_interpreter (src/stack.c); the plugin passes the value found in the source */
#endif
/* error deliveries: every entry of mudlib_error_handler () (`verif hook: error trace point`, src/error_context.c) */
#ifdef NEOLITH_VERIF
extern void (*verif_error_hook) (const char *err, int catch_flag);
#endif
static long c04_handlers = 0;
static int c04_shape_has_safe = 0;
static void c04_count_handler (const char *err, int catch_flag)
{
  (void) err;
  (void) catch_flag;
  c04_handlers++;
}

static int c04_stack = 0;
static const char *c04_conf = 0, *c04_scratch = "/tmp";
static int c04_hc = 0;	/* the master's error handler completes a catch: error_state at the driver level is not compared */

static int c04_ev (int n, char **tok, int quiet)
{
  error_context_t econ;
  object_t *ob = vh_obj (tok[1]);
  volatile int rc = 0;
  volatile int es = 0;
  volatile long long cost0 = 0;	/* the budget this evaluation started with */
  char res[4096];
  svalue_t *ret;
  char *shared;

  if (!ob || (ob->flags & O_DESTRUCTED))
    {
      vh_out ("r noobj");
      return 1;
    }
  shared = make_shared_string (tok[2]);
  res[0] = 0;
  verif_insn_count = 0;
  c04_handlers = 0;
#ifdef NEOLITH_VERIF
  verif_error_hook = c04_count_handler;
#endif
  if (verif_op_hist)
    memset (verif_op_hist, 0, 256 * sizeof (unsigned long));
  verif_max_csp = csp - control_stack;
  verif_max_sp = sp - start_of_stack;
  if (!save_context (&econ))
    {
      vh_out ("r err es=1");
      return 1;
    }
  /* the slots above the lowered StackSize are marked: a push that is not seen at any instruction fetch (arguments
   * pushed inside an efun, popped again before the callee's first instruction) still leaves its trace there */
  if (c04_stack)
    for (svalue_t * q = start_of_stack + c04_stack; q < start_of_stack + CONFIG_INT (__EVALUATOR_STACK_SIZE__); q++)
      q->type = C04_SENTINEL;
  if (!setjmp (econ.context))
    {
      for (int i = 3; i < n; i++)
        {
          char *e;
          long long v = strtoll (tok[i], &e, 10);
          if (*tok[i] && !*e)
            push_number (v);
          else
            copy_and_push_string (tok[i]);
        }
      eval_cost = CONFIG_INT (__MAX_EVAL_COST__);	/* as backend.c does before each task */
      cost0 = eval_cost;
      ret = apply (shared, ob, n - 3, ORIGIN_DRIVER);
      if (!ret)
        rc = 2;
      else
        vh_sv (res, sizeof res, ret);
      pop_context (&econ);
    }
  else
    {
      es = get_error_state (ES_STACK_FULL | ES_MAX_EVAL_COST);	/* what the driver-level context sees */
      restore_context (&econ);
      pop_context (&econ);
      rc = 1;
    }
  free_string (shared);
  if (quiet)
    return 1;
  if (rc == 1)
    vh_out ("r err es=%d", es);
  else if (rc == 2)
    vh_out ("r nofn");
  else
    vh_out ("r ret %s", res);
  if (!strcmp (tok[1], "p") && !c04_shape_has_safe)
    vh_out ("handlers %ld", c04_handlers);	/* compared with the model: program evaluations only */
  if (verif_op_hist)
    {
      /* `#` lines are not compared and not judged: read by the plugin (which loop opcodes the evaluation executed) */
      char ops[1024];
      int len = 0;
      ops[0] = 0;
      for (int i = 0; c04_backops[i].name && len < 900; i++)
        if (verif_op_hist[c04_backops[i].op & 255])
          len += snprintf (ops + len, sizeof ops - len, " %s=%lu", c04_backops[i].name, verif_op_hist[c04_backops[i].op & 255]);
      vh_out ("#ops%s", ops);
    }
  {
    long touched = -1;
    if (c04_stack)
      for (svalue_t * q = start_of_stack + CONFIG_INT (__EVALUATOR_STACK_SIZE__) - 1; q >= start_of_stack + c04_stack; q--)
        if (q->type != C04_SENTINEL)
          {
            touched = q - start_of_stack;
            break;
          }
    vh_out ("obs ticks=%lld maxcsp=%ld maxsp=%ld csp=%ld sp=%ld cost=%d depth=%d stack=%d maxtouch=%ld cost0=%lld handlers=%ld", verif_insn_count,
            verif_max_csp, verif_max_sp, (long) (csp - control_stack), (long) (sp - start_of_stack),
            CONFIG_INT (__MAX_EVAL_COST__), CONFIG_INT (__MAX_CALL_DEPTH__), c04_stack, touched, (long long) cost0, c04_handlers);
  }
  return 1;
}

static int hexval (int c)
{
  return c >= '0' && c <= '9' ? c - '0' : c >= 'a' && c <= 'f' ? c - 'a' + 10 : -1;
}

static int c04_cmd (char *line)
{
  char *tok[64];
  char copy[8192];
  if (!strncmp (line, "shape ", 6))
    {
      /* the abstract shape of the program: for the model.  Only this is read here: a program with safe applies (A nodes) runs
       * through master::object_name and call_other frames the model does not have, so an error delivery inside them near the
       * depth limit is not predicted - the delivery count is then reported in the obs line only */
      c04_shape_has_safe = strchr (line + 6, 'A') != 0 || strchr (line + 6, 'X') != 0;	/* (X: recursion through catch - one delivery per catch frame, and the frames below it are nominal in the model) */
      return 1;
    }
  if (!strncmp (line, "conf ", 5))
    return 1;			/* which configuration / master variant the plugin runs this case under */
  if (!strncmp (line, "lpc ", 4))
    {
      /* lpc <path> <hex>: write generated LPC source below the mudlib directory (cwd) */
      char path[256];
      const char *p = line + 4, *sp1 = strchr (p, ' ');
      FILE *f;
      if (!sp1 || sp1 - p >= (long) sizeof path - 2 || p[0] != '/' || strstr (p, ".."))
        {
          vh_out ("badcmd lpc");
          return 1;
        }
      path[0] = '.';
      memcpy (path + 1, p, sp1 - p);
      path[1 + (sp1 - p)] = 0;
      f = fopen (path, "w");
      if (!f)
        {
          vh_out ("badcmd lpc open");
          return 1;
        }
      for (p = sp1 + 1; hexval (p[0]) >= 0 && hexval (p[1]) >= 0; p += 2)
        fputc (hexval (p[0]) * 16 + hexval (p[1]), f);
      fclose (f);
      return 1;
    }
  snprintf (copy, sizeof copy, "%s", line);
  int n = vh_split (copy, tok, 64);
  if (n == 0)
    return 0;
  if (!strcmp (tok[0], "stack") && n == 2)
    {
      int v = atoi (tok[1]);
      if (v >= C04_STACK_SLACK + 1 && v <= CONFIG_INT (__EVALUATOR_STACK_SIZE__))
        {
          end_of_stack = start_of_stack + v - C04_STACK_SLACK;
          c04_stack = v;
        }
      else
        vh_out ("badcmd %s", line);
      return 1;
    }
  if (!strcmp (tok[0], "depth") && n == 2)
    {
      static int allocated = -1;
      int v = atoi (tok[1]);
      if (allocated < 0)
        allocated = CONFIG_INT (__MAX_CALL_DEPTH__);
      if (v >= 1 && v <= allocated)
        CONFIG_INT (__MAX_CALL_DEPTH__) = v;
      else
        vh_out ("badcmd %s", line);
      return 1;
    }
  if (!strcmp (tok[0], "reconf") && n == 3)
    {
      /* reconf <Key> <value>: re-read the config file with `<Key> <value>` replacing that key - the value goes
       * through the real init_config() of lib/rc/rc.cpp (cfgint pokes config_int[] directly) */
      char path[600], *l = 0;
      size_t cap = 0;
      FILE *in = fopen (c04_conf, "r"), *out;
      snprintf (path, sizeof path, "%s/reconf-%d.conf", c04_scratch, (int) getpid ());
      out = fopen (path, "w");
      if (!in || !out)
        {
          vh_out ("badcmd reconf");
          return 1;
        }
      while (getline (&l, &cap, in) >= 0)
        if (strncmp (l, tok[1], strlen (tok[1])) || !strchr (" \t", l[strlen (tok[1])]))
          fputs (l, out);
      fprintf (out, "%s %s\n", tok[1], tok[2]);
      free (l);
      fclose (in);
      fclose (out);
      init_config (path);
      unlink (path);
      return 1;
    }
  if (!strcmp (tok[0], "mset") && n == 3)
    {
      /* mset <fn> <int>: call master()-><fn>(<int>) (switches of the verification master) */
      error_context_t econ;
      save_context (&econ);
      if (!setjmp (econ.context))
        {
          push_number (atoll (tok[2]));
          eval_cost = 100000;
          apply_master_ob (tok[1], 1);
          if (!strcmp (tok[1], "set_handler_catches"))
            c04_hc = atoi (tok[2]);
          pop_context (&econ);
        }
      else
        {
          restore_context (&econ);
          pop_context (&econ);
          vh_out ("badcmd %s", line);
        }
      return 1;
    }
  if (!strcmp (tok[0], "ev") && n >= 3)
    return c04_ev (n, tok, 0);
  if (!strcmp (tok[0], "sz") && n >= 2)
    {
      /* sz <constructor> <args...>  ->  apply /c04/sizes->sz_<constructor>(args...) ; the LPC side prints the VL line */
      object_t *ob = vh_obj ("sizes");
      char fn[80];
      char *t2[64];
      if (!ob)
        {
          vh_out ("sz noobj");
          return 1;
        }
      snprintf (fn, sizeof fn, "sz_%s", tok[1]);
      t2[0] = tok[0];
      t2[1] = (char *) "sizes";
      t2[2] = fn;
      for (int i = 2; i < n; i++)
        t2[i + 1] = tok[i];
      /* run as one evaluation; the result line is printed here from the returned value */
      {
        error_context_t econ;
        volatile int rc = 0;
        char res[256];
        svalue_t *ret;
        char *shared = make_shared_string (fn);
        res[0] = 0;
        save_context (&econ);
        if (!setjmp (econ.context))
          {
            for (int i = 2; i < n; i++)
              {
                char *e;
                long long v = strtoll (tok[i], &e, 10);
                if (*tok[i] && !*e)
                  push_number (v);
                else
                  copy_and_push_string (tok[i]);
              }
            eval_cost = 100000000;	/* the size decisions are not about evaluation cost */
            ret = apply (shared, ob, n - 2, ORIGIN_DRIVER);
            if (!ret)
              rc = 2;
            else
              vh_sv (res, sizeof res, ret);
            pop_context (&econ);
          }
        else
          {
            restore_context (&econ);
            pop_context (&econ);
            rc = 1;
          }
        free_string (shared);
        if (rc == 1)
          vh_out ("sz err");
        else if (rc == 2)
          vh_out ("sz nofn %s", fn);
        else
          vh_out ("sz ok %s", res);
      }
      return 1;
    }
  return 0;
}

int main (int argc, char **argv)
{
  for (int i = 1; i + 1 < argc; i++)
    {
      if (!strcmp (argv[i], "--conf"))
        c04_conf = argv[i + 1];
      else if (!strcmp (argv[i], "--scratch"))
        c04_scratch = argv[i + 1];
    }
  return vh_main (argc, argv, c04_cmd);
}
