/* C02 harness: compile generated LPC sources through the real compiler (compile_file(), the function load_object()
 * uses) with the H3 trace hook installed, and compare a fixed probe program compiled before and after.
 *
 * commands (one case = one forked child, see vh.h):
 *   probe                  compile /c02/probe.c, print `probe <hash> ...` (structural dump hash), free the program
 *   src <hex>              append bytes to the main source  (-> /c02/t/x.c);  newsrc  empties it again
 *   file <name> <hex>      append bytes to /c02/t/<name>
 *   aprobe-arm             fork the pristine helper of the adaptive probe (before any fuzzed compile)
 *   aprobe                 adaptive probe: mention every declared identifier, compare with the pristine helper
 *   pretext                compile the collected source as pre_text (no file), print the outcome like `compile`
 *   compile                write the files, compile /c02/t/x.c, print the outcome:
 *                            result prog | result errors <n> | result thrown | result none | result inherit
 * every trace point of the compiler prints `ev <event> <cursor> <size> [...]`.
 */
#include "vh.h"
#include <unistd.h>
#include <fcntl.h>
#include <sys/stat.h>
#include <sys/wait.h>
#include "lpc/compiler.h"
#include "lpc/identifier.h"
#include "lpc/program.h"
#include "scratchpad.h"

extern int num_parse_error;
extern char *inherit_file;

#define MAXSRC (4 << 20)
static char *src_buf;
static size_t src_len;
static struct { char name[600]; char *buf; size_t len; } files[64];
static int nfiles;

/* ---- permanent identifiers (efun / simul_efun / reserved names) touched by a compile ------------------ */
static struct { ident_hash_elem_t *ihe; int sem, fn, glob, cls; } perm[512];
static int nperm;

/* names the compiled sources declared (locals, functions, globals, classes): input of the adaptive probe */
#define MAXNAMES 24
static char names[MAXNAMES][48];
static int nnames;
static int nlarge;		/* malloc'ed scratchpad blocks alive (counted from the trace) */
static int collect_names;	/* only while a fuzzed source is compiled */

static void note_name (const char *n, int isperm)
{
  size_t len = strlen (n);
  if (!collect_names || !len || len >= sizeof names[0])
    return;
  for (const char *q = n; *q; q++)
    if (!(isalnum ((unsigned char) *q) || *q == '_'))
      return;
  for (int i = 0; i < nnames; i++)
    if (!strcmp (names[i], n))
      return;
  if (nnames < MAXNAMES)
    strcpy (names[nnames++], n);
  else if (isperm)
    {
      /* permanent names are the interesting ones: replace a non-permanent one */
      for (int i = 0; i < nnames; i++)
        {
          ident_hash_elem_t *e = lookup_ident (names[i]);
          if (!e || !(e->token & IHE_PERMANENT))
            {
              strcpy (names[i], n);
              return;
            }
        }
    }
}

static int perm_index (ident_hash_elem_t * ihe)
{
  for (int i = 0; i < nperm; i++)
    if (perm[i].ihe == ihe)
      return i;
  return -1;
}

/* first sight of a permanent identifier (always BEFORE the compiler modifies it): remember all its fields */
static void perm_first_sight (ident_hash_elem_t * ihe, long sem_now)
{
  if (!ihe || !(ihe->token & IHE_PERMANENT) || perm_index (ihe) >= 0 || nperm >= 512)
    return;
  perm[nperm].ihe = ihe;
  perm[nperm].sem = (int) sem_now;
  perm[nperm].fn = ihe->dn.function_num;
  perm[nperm].glob = ihe->dn.global_num;
  perm[nperm].cls = ihe->dn.class_num;
  if (ihe->dn.function_num != -1 || ihe->dn.global_num != -1 || ihe->dn.class_num != -1 || ihe->dn.local_num != -1)
    vh_out ("ident.base-odd %s fn=%d glob=%d cls=%d local=%d", ihe->name, ihe->dn.function_num, ihe->dn.global_num,
            ihe->dn.class_num, ihe->dn.local_num);
  nperm++;
}

static long before_local = 0, before_sem = 0, pre_field = 0, pre_sem = 0;
static long nev = 0;
#define MAXEV 150000

static void c02_trace (const char *ev, long cursor, long size)
{
  ident_hash_elem_t *subj = (ident_hash_elem_t *) verif_compiler_trace_subject;
  static int truncating;
  if (nev == 0)
    truncating = 0;
  /* very long traces are cut, but only at the start of an operation (mem.req), never inside one */
  if (++nev > MAXEV && !truncating && !strcmp (ev, "mem.req"))
    {
      truncating = 1;
      vh_out ("ev-truncated");
    }
  if (truncating)
    {
      /* keep the end-of-compile events so that the oracle still sees them */
      if (strncmp (ev, "lex.", 4) && strcmp (ev, "local.cleanup") && strncmp (ev, "ident.", 6) && strcmp (ev, "scr.destroy"))
        return;
    }
  if (!strcmp (ev, "ident.pre"))
    {
      perm_first_sight (subj, size);
      pre_field = cursor;
      pre_sem = size;
      return;
    }
  if (!strncmp (ev, "ident.bind.", 11))
    {
      int isperm = subj && (subj->token & IHE_PERMANENT) ? 1 : 0;
      if (subj)
        note_name (subj->name, isperm);
      /* binding after, sem after, name, permanent?, binding before, sem before */
      vh_out ("ev %s %ld %ld %s %d %ld %ld", ev, cursor, size, subj && subj->name[0] ? subj->name : "-", isperm, pre_field, pre_sem);
      return;
    }
  if (!strcmp (ev, "ident.clean"))
    {
      int i = perm_index (subj);
      /* sem_value relative to the value at first sight */
      vh_out ("ev ident.clean %ld 0 %s", i >= 0 ? cursor - perm[i].sem : 9999L, subj ? subj->name : "-");
      return;
    }
  if (!strcmp (ev, "local.ident0"))
    {
      long idx = (locals_ptr - locals) + current_number_of_locals - 1;
      if (idx >= 0 && (size_t) idx < locals_size)
        perm_first_sight (locals_ptr[current_number_of_locals - 1], size);
      before_local = cursor;
      before_sem = size;
      return;
    }
  if (!strcmp (ev, "local.ident"))
    {
      ident_hash_elem_t *ihe = 0;
      long idx = (locals_ptr - locals) + current_number_of_locals - 1;
      if (idx >= 0 && (size_t) idx < locals_size)
        ihe = locals_ptr[current_number_of_locals - 1];
      int isperm = ihe && (ihe->token & IHE_PERMANENT) ? 1 : 0;
      if (ihe)
        note_name (ihe->name, isperm);
      /* local_num before, sem before -> local_num assigned, sem after */
      vh_out ("ev local.ident %ld %ld %s %d %ld %ld", cursor, size, ihe && ihe->name[0] ? ihe->name : "-", isperm,
              before_local, before_sem);
      return;
    }
  if (!strncmp (ev, "scr.", 4))
    {
      /* scratchpad: shadow stack of the starts of the strings on the pad (offsets into scratchblock) */
      static long starts[4200];
      static int nst;
      unsigned char *base = scratch_end - SCRATCHPAD_SIZE;
      long last = scr_last - base, tail = scr_tail - base;
      if (!strcmp (ev, "scr.push"))
        {
          if (nst < 4200)
            starts[nst++] = last;
        }
      else if (!strcmp (ev, "scr.join"))
        {
          if (nst > 0)
            nst--;
        }
      else if (!strcmp (ev, "scr.large"))
        nlarge++;
      else if (!strcmp (ev, "scr.free_block"))
        nlarge--;
      else if (!strcmp (ev, "scr.destroy"))
        nst = nlarge = 0;
      else if (!strcmp (ev, "scr.after"))
        {
          while (nst > 0 && starts[nst - 1] > last)
            nst--;
        }
      if (!strcmp (ev, "scr.free_last"))
        {
          /* how many strings below the top one are marked as freed (first byte 0): the walk back passes them */
          int k = 0;
          for (int i = nst - 2; i >= 0 && base[starts[i]] == 0; i--)
            k++;
          vh_out ("ev %s %ld %ld %ld %d %d", ev, tail, size, last, nlarge, k);
        }
      else
        vh_out ("ev %s %ld %ld %ld %d", ev, tail, size, last, nlarge);	/* scr.mark passes the freed string, not the tail */
      return;
    }
  vh_out ("ev %s %ld %ld", ev, cursor, size);
  if (!strcmp (ev, "lex.end.if"))
    {
      for (int i = 0; i < nperm; i++)
        vh_out ("ident.end %s delta=%d fn=%d glob=%d cls=%d local=%d", perm[i].ihe->name,
                (int) perm[i].ihe->sem_value - perm[i].sem, (int) perm[i].ihe->dn.function_num,
                (int) perm[i].ihe->dn.global_num, (int) perm[i].ihe->dn.class_num, (int) perm[i].ihe->dn.local_num);
      vh_out ("locals.end cur=%d max=%d name=%ld type=%ld", current_number_of_locals, max_num_locals,
              (long) (locals_ptr - locals), (long) (type_of_locals_ptr - type_of_locals));
      vh_out ("scratch.end last=%ld tail=%ld large=%d", (long) (scr_last - (scratch_end - SCRATCHPAD_SIZE)),
              (long) (scr_tail - (scratch_end - SCRATCHPAD_SIZE)), nlarge);
    }
}

/* ---- helpers ------------------------------------------------------------ */
static int hexval (int c)
{
  if (c >= '0' && c <= '9')
    return c - '0';
  if (c >= 'a' && c <= 'f')
    return c - 'a' + 10;
  if (c >= 'A' && c <= 'F')
    return c - 'A' + 10;
  return -1;
}

static void append_hex (char **buf, size_t * len, const char *hex)
{
  if (!*buf)
    *buf = (char *) malloc (MAXSRC);
  while (hexval (hex[0]) >= 0 && hexval (hex[1]) >= 0 && *len < MAXSRC - 1)
    {
      (*buf)[(*len)++] = (char) (hexval (hex[0]) * 16 + hexval (hex[1]));
      hex += 2;
    }
}

static void write_file (const char *path, const char *buf, size_t len)
{
  int fd = open (path, O_WRONLY | O_CREAT | O_TRUNC, 0644);
  if (fd < 0)
    return;
  size_t off = 0;
  while (off < len)
    {
      ssize_t n = write (fd, buf + off, len - off);
      if (n <= 0)
        break;
      off += n;
    }
  close (fd);
}

static unsigned long long fnv (unsigned long long h, const void *p, size_t n)
{
  const unsigned char *s = (const unsigned char *) p;
  while (n--)
    {
      h ^= *s++;
      h *= 1099511628211ULL;
    }
  return h;
}

static unsigned long long fnv_str (unsigned long long h, const char *s)
{
  return fnv (fnv (h, s, strlen (s)), "\0", 1);
}

static int cmp_fn (const void *a, const void *b)
{
  return strcmp ((*(compiler_function_t * const *) a)->name, (*(compiler_function_t * const *) b)->name);
}

/* structural dump of a program reduced to a hash; pointer-order artefacts (function table is sorted by the address
 * of the shared name string) are removed by sorting by name */
static void dump_str (program_t * prog, char *out, size_t nout)
{
  unsigned long long h = 1469598103934665603ULL;
  char tmp[256];
  h = fnv (h, prog->program, prog->program_size);
  int nf = prog->num_functions_defined;
  compiler_function_t **fs = (compiler_function_t **) calloc (nf + 1, sizeof *fs);
  for (int i = 0; i < nf; i++)
    fs[i] = &prog->function_table[i];
  qsort (fs, nf, sizeof *fs, cmp_fn);
  for (int i = 0; i < nf; i++)
    {
      int ri = fs[i]->runtime_index;
      runtime_function_u *e = FIND_FUNC_ENTRY (prog, ri);
      snprintf (tmp, sizeof tmp, "%s t=%d a=%d ri=%d fl=%x na=%d nl=%d", fs[i]->name, (int) fs[i]->type,
                (int) fs[i]->address, ri, (unsigned) prog->function_flags[ri], (int) e->def.num_arg,
                (int) e->def.num_local);
      h = fnv_str (h, tmp);
    }
  free (fs);
  for (int i = 0; i < prog->num_strings; i++)
    h = fnv_str (h, prog->strings[i]);
  for (int i = 0; i < prog->num_variables_defined; i++)
    {
      snprintf (tmp, sizeof tmp, "%s:%d", prog->variable_table[i], (int) prog->variable_types[i]);
      h = fnv_str (h, tmp);
    }
  for (int i = 0; i < prog->num_classes; i++)
    {
      snprintf (tmp, sizeof tmp, "c%d:%d:%d", (int) prog->classes[i].name, (int) prog->classes[i].size,
                (int) prog->classes[i].index);
      h = fnv_str (h, tmp);
    }
  snprintf (out, nout, "%016llx size=%d fn=%d/%d str=%d var=%d/%d cls=%d inh=%d", h, (int) prog->program_size,
          (int) prog->num_functions_defined, (int) prog->num_functions_total, (int) prog->num_strings,
          (int) prog->num_variables_defined, (int) prog->num_variables_total, (int) prog->num_classes,
          (int) prog->num_inherited);
}

static void dump_prog (const char *tag, program_t * prog)
{
  char buf[256];
  dump_str (prog, buf, sizeof buf);
  vh_out ("%s %s", tag, buf);
}

/* compile one file of the mudlib like load_object() does; returns the program or 0 */
static program_t *compile_path_pre (const char *path, int *thrown, const char *pre_text)
{
  error_context_t econ;
  program_t *volatile prog = 0;
  volatile int fd = -1;
  *thrown = 0;
  save_context (&econ);
  if (!setjmp (econ.context))
    {
      eval_cost = CONFIG_INT (__MAX_EVAL_COST__);
      fd = open (path, O_RDONLY);
      if (fd >= 0 || pre_text)
        prog = compile_file (fd, path, pre_text);
      pop_context (&econ);
    }
  else
    {
      restore_context (&econ);
      pop_context (&econ);
      *thrown = 1;
      prog = 0;
    }
  if (fd >= 0)
    close (fd);
  total_lines = 0;
  return prog;
}

static program_t *compile_path (const char *path, int *thrown)
{
  return compile_path_pre (path, thrown, 0);
}

/* ---- adaptive reusability probe -------------------------------------------------------------------------
 * A helper process is forked BEFORE the fuzzed input is compiled (`aprobe-arm`); it never sees that input.
 * After the fuzzed compile (`aprobe`) both processes compile the same tiny programs, each mentioning one identifier
 * the fuzzed input declared (as rvalue, lvalue, functional, call, class name); every outcome must be the same. */
static int ap_go[2] = { -1, -1 }, ap_res[2] = { -1, -1 };
static pid_t ap_helper = -1;
static const char *ap_kinds[] = { "r", "l", "f", "c", "t" };
#define AP_NKINDS 5

static void ap_text (char *buf, size_t n, const char *name, int kind)
{
  switch (kind)
    {
    case 0: snprintf (buf, n, "mixed ap() { return %s; }\n", name); break;
    case 1: snprintf (buf, n, "void ap() { %s = 1; }\n", name); break;
    case 2: snprintf (buf, n, "mixed ap() { return (: %s :); }\n", name); break;
    case 3: snprintf (buf, n, "mixed ap() { return %s(); }\n", name); break;
    default: snprintf (buf, n, "mixed ap() { class %s x; return 0; }\n", name); break;
    }
}

static void ap_outcome (const char *name, int kind, char *out, size_t nout)
{
  char text[256];
  int thrown;
  program_t *prog;
  ap_text (text, sizeof text, name, kind);
  prog = compile_path_pre ("c02/t/ap_nofile.c", &thrown, text);
  if (prog)
    {
      char d[200];
      dump_str (prog, d, sizeof d);
      snprintf (out, nout, "prog %s", d);
      free_prog (prog, 1);
    }
  else if (inherit_file)
    {
      FREE (inherit_file);
      inherit_file = 0;
      snprintf (out, nout, "inherit");
    }
  else if (thrown)
    snprintf (out, nout, "thrown");
  else
    snprintf (out, nout, "errors %d", num_parse_error);
}

static void ap_arm (void)
{
  if (ap_helper > 0 || pipe (ap_go) || pipe (ap_res))
    return;
  fflush (stderr);
  ap_helper = fork ();
  if (ap_helper == 0)
    {
      char line[64], out[300];
      FILE *in, *res;
      int fd = open ("/dev/null", O_WRONLY);
      dup2 (fd, 2);
      close (ap_go[1]);
      close (ap_res[0]);
      verif_compiler_trace = 0;
      alarm (60);
      in = fdopen (ap_go[0], "r");
      res = fdopen (ap_res[1], "w");
      while (in && res && fgets (line, sizeof line, in))
        {
          line[strcspn (line, "\n")] = 0;
          if (!line[0])
            continue;
          for (int k = 0; k < AP_NKINDS; k++)
            {
              ap_outcome (line, k, out, sizeof out);
              fprintf (res, "%s\n", out);
            }
          fflush (res);
        }
      _exit (0);
    }
  close (ap_go[0]);
  close (ap_res[1]);
}

static void ap_run (void)
{
  char mine[MAXNAMES * AP_NKINDS][300];
  char line[300];
  int differ = 0, n = 0;
  FILE *res;
  if (ap_helper <= 0)
    {
      vh_out ("aprobe unarmed");
      return;
    }
  verif_compiler_trace = 0;
  for (int i = 0; i < nnames; i++)
    {
      dprintf (ap_go[1], "%s\n", names[i]);
      for (int k = 0; k < AP_NKINDS; k++)
        ap_outcome (names[i], k, mine[n++], sizeof mine[0]);
    }
  close (ap_go[1]);
  res = fdopen (ap_res[0], "r");
  for (int j = 0; j < n; j++)
    {
      if (!res || !fgets (line, sizeof line, res))
        snprintf (line, sizeof line, "helper-missing");
      line[strcspn (line, "\n")] = 0;
      if (strcmp (line, mine[j]))
        {
          differ++;
          vh_out ("aprobe-differs %s %s fresh=[%s] after=[%s]", names[j / AP_NKINDS], ap_kinds[j % AP_NKINDS], line, mine[j]);
        }
    }
  vh_out ("aprobe names=%d probes=%d differ=%d", nnames, n, differ);
  {
    int st;
    waitpid (ap_helper, &st, 0);
  }
}

static int c02_cmd (char *line)
{
  if (!strcmp (line, "aprobe-arm"))
    {
      ap_arm ();
      return 1;
    }
  if (!strcmp (line, "aprobe"))
    {
      ap_run ();
      return 1;
    }
  if (!strcmp (line, "pretext"))
    {
      /* compile the collected source as pre_text of a file that does not exist (what load_object(name, pre_text)
       * does for the unit tests) */
      int thrown;
      program_t *prog;
      if (!src_buf)
        src_buf = (char *) calloc (1, MAXSRC);
      src_buf[src_len] = 0;
      nev = 0;
      verif_compiler_trace = c02_trace;
      vh_out ("cfg maxlocals %ld", (long) num_local_variables_allowed);
      collect_names = 1;
      prog = compile_path_pre ("c02/t/nofile.c", &thrown, src_buf);
      collect_names = 0;
      if (prog)
        {
          vh_out ("result prog");
          free_prog (prog, 1);
        }
      else if (inherit_file)
        {
          /* load_object() would load the inherited file and retry; not followed up for pre_text compiles */
          FREE (inherit_file);
          inherit_file = 0;
          vh_out ("result inherit");
        }
      else if (thrown)
        vh_out ("result thrown");
      else if (num_parse_error > 0)
        vh_out ("result errors %d", num_parse_error);
      else
        vh_out ("result none");
      return 1;
    }
  if (!strcmp (line, "probe"))
    {
      int thrown;
      program_t *prog;
      nev = 0;
      verif_compiler_trace = c02_trace;
      vh_out ("cfg maxlocals %ld", (long) num_local_variables_allowed);
      prog = compile_path ("c02/probe.c", &thrown);
      if (prog)
        {
          dump_prog ("probe", prog);
          free_prog (prog, 1);
        }
      else
        vh_out ("probe FAIL errors=%d thrown=%d", num_parse_error, thrown);
      return 1;
    }
  if (!strncmp (line, "src ", 4))
    {
      append_hex (&src_buf, &src_len, line + 4);
      return 1;
    }
  if (!strcmp (line, "src"))
    return 1;
  if (!strcmp (line, "newsrc"))
    {
      src_len = 0;
      return 1;
    }
  if (!strncmp (line, "file ", 5))
    {
      char name[600];
      const char *p = line + 5;
      int n = 0;
      while (*p && *p != ' ' && n < 599)
        name[n++] = *p++;
      name[n] = 0;
      while (*p == ' ')
        p++;
      /* sub-directories of c02/t are allowed (created on demand); no "..", no absolute names */
      if (name[0] == '/' || strstr (name, ".."))
        return 0;
      for (const char *q = name; *q; q++)
        if (!(isalnum ((unsigned char) *q) || *q == '_' || *q == '.' || *q == '/'))
          return 0;
      int i;
      for (i = 0; i < nfiles; i++)
        if (!strcmp (files[i].name, name))
          break;
      if (i == nfiles)
        {
          if (nfiles == 64)
            return 0;
          snprintf (files[i].name, sizeof files[i].name, "%s", name);
          nfiles++;
        }
      append_hex (&files[i].buf, &files[i].len, p);
      return 1;
    }
  if (!strcmp (line, "compile"))
    {
      int thrown, tries = 0;
      program_t *prog;
      char path[1024];
      mkdir ("c02/t", 0755);
      for (int i = 0; i < nfiles; i++)
        {
          snprintf (path, sizeof path, "c02/t/%s", files[i].name);
          for (char *q = path + 6; *q; q++)
            if (*q == '/')
              {
                *q = 0;
                mkdir (path, 0755);
                *q = '/';
              }
          write_file (path, files[i].buf ? files[i].buf : "", files[i].len);
        }
      write_file ("c02/t/x.c", src_buf ? src_buf : "", src_len);
      nev = 0;
      verif_compiler_trace = c02_trace;
      vh_out ("cfg maxlocals %ld", (long) num_local_variables_allowed);
    again:
      collect_names = 1;
      prog = compile_path ("c02/t/x.c", &thrown);
      collect_names = 0;
      if (prog)
        {
          vh_out ("result prog");
          free_prog (prog, 1);
        }
      else if (inherit_file)
        {
          /* load_object() would now load the inherited file and retry */
          error_context_t econ;
          char inh[512];
          object_t *volatile ob = 0;
          snprintf (inh, sizeof inh, "%s", inherit_file);
          FREE (inherit_file);
          inherit_file = 0;
          vh_out ("result inherit");
          save_context (&econ);
          if (!setjmp (econ.context))
            {
              ob = load_object (inh, 0);
              pop_context (&econ);
            }
          else
            {
              restore_context (&econ);
              pop_context (&econ);
              ob = 0;
            }
          if (ob && ++tries < 4)
            goto again;
          vh_out ("result inherit-failed");
        }
      else if (thrown)
        vh_out ("result thrown");
      else if (num_parse_error > 0)
        vh_out ("result errors %d", num_parse_error);
      else
        vh_out ("result none");
      return 1;
    }
  return 0;
}

int main (int argc, char **argv)
{
  return vh_main (argc, argv, c02_cmd);
}
