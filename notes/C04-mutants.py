#!/usr/bin/env python3
"""C04 mutation self-test (rounds 4 to 6): `NV_REPO=<scratch worktree> python3 notes/C04-mutants.py <name>` applies one mutant to the
working tree (then run `./check C04 --tier quick`, then `git checkout -- .`); outcomes are listed in notes/C04.md"""
import sys, re
import os
R = os.environ.get("NV_REPO", "/repo").rstrip("/") + "/"   # apply to a scratch worktree, never to /repo itself
def sub(path, old, new, count=1):
    s = open(R + path).read()
    assert s.count(old) == count, (path, old[:40], s.count(old))
    open(R + path, "w").write(s.replace(old, new))

def A():  # F_LOOP_INCR runs a whole empty-bodied for loop inline (a loop opcode that iterates without a fetch)
    sub("src/interpret.c", """        case F_LOOP_INCR:	/* this case must be just prior to
                                 * F_LOOP_COND */
          {
            svalue_t *s;
""", """        case F_LOOP_INCR:	/* this case must be just prior to
                                 * F_LOOP_COND */
        loop_incr_again:
          {
            const char *self_pc = pc - 1;
            svalue_t *s;
""")
    s = open(R + "src/interpret.c").read()
    i = s.index("          if (*pc == F_LOOP_COND_LOCAL)\n            {\n              pc++;\n              do_loop_cond_local ();\n            }")
    j = s.index("break;", i)
    blk = s[i:j]
    new = blk.replace("do_loop_cond_local ();", "do_loop_cond_local ();\n              if (pc == self_pc) { pc++; goto loop_incr_again; }	/* empty loop body: stay here */").replace(
        "do_loop_cond_number ();", "do_loop_cond_number ();\n              if (pc == self_pc) { pc++; goto loop_incr_again; }")
    assert new != blk
    # self_pc is declared inside the block above: hoist by making it function-static
    s = s[:i] + new + s[j:]
    s = s.replace("            const char *self_pc = pc - 1;\n            svalue_t *s;\n", "            svalue_t *s;\n            self_pc = pc - 1;\n")
    s = s.replace("  static instr_t *instrs2 = instrs + ONEARG_MAX;\n", "  static instr_t *instrs2 = instrs + ONEARG_MAX;\n  const char *self_pc = 0;\n", 1)
    open(R + "src/interpret.c", "w").write(s)

def B():  # safe_apply gives the caller back the budget it had before the call (value cached across the call)
    sub("src/apply.c", "  econ.save_sp = sp - num_arg;\n\n  if (!setjmp (econ.context))\n    {\n      if (!(ob->flags & O_DESTRUCTED))\n        {\n          ret = apply (fun, ob, num_arg, where);",
        "  econ.save_sp = sp - num_arg;\n  saved_cost = eval_cost;\n\n  if (!setjmp (econ.context))\n    {\n      if (!(ob->flags & O_DESTRUCTED))\n        {\n          ret = apply (fun, ob, num_arg, where);")
    sub("src/apply.c", "      if (get_error_state (ES_MAX_EVAL_COST))\n        eval_cost = 1;\n      ret = 0;", "      if (get_error_state (ES_MAX_EVAL_COST))\n        eval_cost = saved_cost > 1 ? saved_cost : 1;	/* the failed call is not charged to the caller */\n      ret = 0;")
    s = open(R + "src/apply.c").read()
    m = re.search(r"svalue_t \*\s*safe_apply \([^)]*\)\s*\{\n", s) or re.search(r"safe_apply \([^)]*\)\s*\n?\{\n", s)
    assert m
    s = s[:m.end()] + "  volatile int64_t saved_cost;\n" + s[m.end():]
    open(R + "src/apply.c", "w").write(s)

def C():  # repeat_string: division guard off by one
    sub("lib/efuns/string.c", "if (repeat > (size_t)CONFIG_INT (__MAX_STRING_LENGTH__) / len)", "if (repeat > (size_t)CONFIG_INT (__MAX_STRING_LENGTH__) / len + 1)")

def D():  # regexp (arr, pat, 1): "the index entries do not count": the limit is doubled around the allocation (and stays doubled when it fails)
    sub("lib/lpc/array.c", "  ret = allocate_empty_array (num_match << flag);\n",
        "  {\n    int save_max = CONFIG_INT (__MAX_ARRAY_SIZE__);\n    if (flag)\n      CONFIG_INT (__MAX_ARRAY_SIZE__) = save_max * 2;\n    ret = allocate_empty_array (num_match << flag);\n    CONFIG_INT (__MAX_ARRAY_SIZE__) = save_max;\n  }\n")

def E():  # two sites: the error state is cleared when a context is restored instead of when it is popped
    sub("src/error_context.c", "  current_error_context = econ->save_context;\n  clear_error_state ();", "  current_error_context = econ->save_context;")
    s = open(R + "src/error_context.c").read()
    m = re.search(r"void restore_context \(error_context_t \* econ\) \{\n", s) or re.search(r"restore_context \(error_context_t \* ?econ\)\s*\{\n", s)
    assert m, "restore_context"
    s = s[:m.end()] + "  clear_error_state ();	/* a restored context starts clean */\n" + s[m.end():]
    open(R + "src/error_context.c", "w").write(s)

def F():  # find_for_insert: the error path no longer takes the increment back
    sub("lib/lpc/mapping.c", "      m->count--;\n      mapping_too_large ();", "      mapping_too_large ();")

def G():  # restore_mapping without the size test
    s = open(R + "lib/lpc/object.c").read()
    i = s.index("      if (++count > CONFIG_INT (__MAX_MAPPING_SIZE__))")
    j = s.index("mapping_too_large ();", i)
    j = s.index("}", j) + 1
    s = s[:i] + "      ++count;" + s[j:]
    open(R + "lib/lpc/object.c", "w").write(s)

def H():  # revert fix 5334d17
    sub("lib/lpc/mapping.c", "  unsigned int deleted = 0;", "  unsigned short deleted = 0;")

def I():  # revert fix ab97f18
    s = open(R + "lib/lpc/object.c").read()
    i = s.index("  if (theSize - 1 > (size_t)CONFIG_INT (__MAX_STRING_LENGTH__))")
    j = s.index("\n", s.index("error (", i)) + 1
    open(R + "lib/lpc/object.c", "w").write(s[:i] + s[j:])

def J():  # call_efun_callback charges only callbacks that enter LPC code (the charge moved behind the apply)
    sub("src/interpret.c", "svalue_t* call_efun_callback (function_to_call_t * ftc, int n) {\n  svalue_t *v;\n", "svalue_t* call_efun_callback (function_to_call_t * ftc, int n) {\n  svalue_t *v;\n  if (ftc->ob && ftc->f.str && !function_exists (ftc->f.str, ftc->ob, 0)) goto no_charge;\n")
    sub("src/interpret.c", "  if (ftc->narg)\n    push_some_svalues (ftc->args, ftc->narg);\n\n  if (ftc->ob)\n    {\n      if (ftc->ob->flags & O_DESTRUCTED)\n        error (\"*Object destructed during efun callback.\");", "no_charge:\n  if (ftc->narg)\n    push_some_svalues (ftc->args, ftc->narg);\n\n  if (ftc->ob)\n    {\n      if (ftc->ob->flags & O_DESTRUCTED)\n        error (\"*Object destructed during efun callback.\");")

def K():  # push_some_svalues without its STACK_CHECK (callback arguments are pushed unchecked)
    sub("src/stack.c", "void push_some_svalues (svalue_t * v, int num) {\n  STACK_CHECK (num);\n", "void push_some_svalues (svalue_t * v, int num) {\n")

def L():  # revert fix d13165e (nested handler error loses the limit bits)
    s = open(R + "src/error_context.c").read()
    assert s.count("          set_error_state (handler_limit_state);\n") == 1 and s.count("      set_error_state (handler_limit_state);\n") == 2
    s = s.replace("          set_error_state (handler_limit_state);\n", "").replace("      set_error_state (handler_limit_state);\n", "")
    open(R + "src/error_context.c", "w").write(s)

def M():  # only the safe-apply path of the same fix is reverted (uncaught nested error)
    s = open(R + "src/error_context.c").read()
    i = s.rindex("      set_error_state (handler_limit_state);\n")
    open(R + "src/error_context.c", "w").write(s[:i] + s[i + len("      set_error_state (handler_limit_state);\n"):])

def N():  # the string join length check extracted into a helper with a narrower parameter type
    sub("src/interpret.h", "if ((len) > (size_t)CONFIG_INT (__MAX_STRING_LENGTH__))", "if ((unsigned short)(len) > (size_t)CONFIG_INT (__MAX_STRING_LENGTH__))")

def O():  # regexec charges the evaluation only for matches that succeed (counter updated on one path only)
    sub("lib/efuns/regexp.c", "  if (eval_cost > 1)\n    eval_cost = (used >= eval_cost - 1) ? 1 : eval_cost - used;", "  if (ret && eval_cost > 1)\n    eval_cost = (used >= eval_cost - 1) ? 1 : eval_cost - used;")

def P():  # call_efun_callback charges exactly one tick per callback: the budget it cached before the call is written back
    s = open(R + "src/interpret.c").read()
    i = s.index("svalue_t* call_efun_callback (function_to_call_t * ftc, int n) {")
    j = s.index("\n}\n", i)
    body = s[i:j]
    assert body.count("return v;") >= 1, body[-400:]
    body = body.replace("  svalue_t *v;\n", "  svalue_t *v;\n  int64_t cost_before;\n", 1)
    body = body.replace("  if (ftc->narg)\n    push_some_svalues", "  cost_before = eval_cost;\n  if (ftc->narg)\n    push_some_svalues", 1)
    body = body.replace("return v;", "{ eval_cost = cost_before; return v; }")
    open(R + "src/interpret.c", "w").write(s[:i] + body + s[j:])

def Q():  # do_catch: pop_context moved in front of the evaluation-cost test (condition moved across a statement)
    sub("src/frame.c", "      if (get_error_state (ES_MAX_EVAL_COST))\n        {\n          pop_context (&econ);", "      pop_context (&econ);\n      if (get_error_state (ES_MAX_EVAL_COST))\n        {")

def S2():  # error_handler: handler_limit_state is saved on the caught path only (cleanup / bookkeeping skipped on the rarer path)
    s = open(R + "src/error_context.c").read()
    i = s.rindex("      handler_limit_state = limit_state;\n")
    open(R + "src/error_context.c", "w").write(s[:i] + s[i + len("      handler_limit_state = limit_state;\n"):])

def T():  # save_variable compares with the wrong (plausible) limit
    sub("lib/lpc/object.c", "  if (theSize - 1 > (size_t)CONFIG_INT (__MAX_STRING_LENGTH__))", "  if (theSize - 1 > (size_t)CONFIG_INT (__MAX_ARRAY_SIZE__))")

def U():  # compose_mapping counts the unlinked nodes on the copying path only
    sub("lib/lpc/mapping.c", "                  deleted++;\n", "                  if (flag)\n                    deleted++;\n")

def V():  # revert fix 187b28d (do_catch at full depth marks its error)
    sub("src/frame.c", "      set_error_state (ES_STACK_FULL);\n      error (\"*Can't catch too deep recursion error.\");\n    }\n\n  push_control_stack", "      error (\"*Can't catch too deep recursion error.\");\n    }\n\n  push_control_stack")

def W():  # revert fix aceb285 (trace of an error inside the trace without arguments)
    sub("src/error_context.c", "      dump_trace (0);", "      dump_trace (g_trace_flag);")

def X2():  # revert fix 1ced780 in effect: regmatch no longer stops when the steps are used up
    sub("lib/efuns/regexp.c", "      if (--regsteps < 0)\n        return (0);", "      --regsteps;")

def Y():  # revert fix 91b4476 (trace of a frame that is not built yet)
    s = open(R + "src/simulate.c").read()
    g = "  if (num_arg != -1 && fp + num_arg + num_local - 1 > sp)\n    num_arg = -1;\n"
    assert s.count(g) == 2
    open(R + "src/simulate.c", "w").write(s.replace(g, ""))

def R1():  # restore pre-pass: nesting limit off by one
    sub("lib/lpc/object.c", "  if (nesting > MAX_SAVE_SVALUE_DEPTH)\n    return 0;", "  if (nesting > MAX_SAVE_SVALUE_DEPTH + 1)\n    return 0;")

def R2():  # svalue_save_size: the depth test of the mapping branch is gone (guard on two of three paths only)
    s = open(R + "lib/lpc/object.c").read()
    i = s.index("    case T_MAPPING:", s.index("size_t svalue_save_size"))
    j = s.index("too_deep_save_error ();", i)
    k = s.index("}", j) + 1
    a = s.index("        if (++save_svalue_depth > MAX_SAVE_SVALUE_DEPTH)", i)
    assert a < j
    open(R + "lib/lpc/object.c", "w").write(s[:a] + "        ++save_svalue_depth;" + s[k:])

def R3():  # regexec charges without the floor of one tick (eval_cost can pass zero)
    sub("lib/efuns/regexp.c", "    eval_cost = (used >= eval_cost - 1) ? 1 : eval_cost - used;", "    eval_cost -= used + 1;")

def R4():  # set_eval_limit clamps at 0 instead of 1
    sub("lib/efuns/unsorted.c", "      if (CONFIG_INT (__MAX_EVAL_COST__) < 1)\n        CONFIG_INT (__MAX_EVAL_COST__) = 1;", "      if (CONFIG_INT (__MAX_EVAL_COST__) < 0)\n        CONFIG_INT (__MAX_EVAL_COST__) = 0;")

def R5():  # unique_mapping tests against the array limit (wrong-but-plausible variable) = revert of 115d78e in effect
    sub("lib/lpc/mapping.c", "  if (numkeys > CONFIG_INT (__MAX_MAPPING_SIZE__))\n    mapping_too_large ();", "  if (numkeys > CONFIG_INT (__MAX_ARRAY_SIZE__))\n    mapping_too_large ();")

globals()[sys.argv[1]]()
