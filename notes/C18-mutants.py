#!/usr/bin/env python3
"""apply mutant <name> to the repo worktree (undo with `git checkout -- .`)"""
import sys, os
REPO = os.environ.get("NV_REPO", "/repo")   # apply to a WORKTREE, undo with git checkout -- .
def rep(path, old, new, count=1):
    p = os.path.join(REPO, path)
    s = open(p).read()
    assert s.count(old) >= 1, (path, old)
    s = s.replace(old, new, count)
    open(p, "w").write(s)
M = {
 # M1 two cooperating sites + a forgotten third: the include stack stores the line of the #include directive itself
 "m1": lambda: (rep("lib/lpc/lex.c", "      is->line = current_line;\n      is->file = current_file;", "      is->line = current_line - 1;\n      is->file = current_file;"),
                rep("lib/lpc/lex.c", "current_line_saved = p->line - 1;", "current_line_saved = p->line;")),
 # M2 loop bound of the __INIT line replay (code added by the fix for initialiser lines)
 "m2": lambda: rep("lib/lpc/program/icode.c", "for (i = 0; i < n; i++)\n    {\n      init_line_t *il", "for (i = 0; i + 1 < n; i++)\n    {\n      init_line_t *il"),
 # M3 program_file_id scans the counts instead of the ids (start index of the pair walk)
 "m3": lambda: rep("lib/lpc/compiler.c", "for (i = 1; i < n; i += 2)\n        {\n          if (fi[i] == (unsigned short) file_id)", "for (i = 0; i < n; i += 2)\n        {\n          if (fi[i] == (unsigned short) file_id)"),
 # M4 boundary of the corrupted-table exit in the first pass
 "m4": lambda: rep("lib/lpc/program.c", "if (p1 >= end)", "if (p1 > end)"),
 # M5 setup_new_frame stores the runtime index (after the inherit walk) instead of the function-table index
 "m5": lambda: rep("src/frame.c", "  findex = func_entry->def.f_index;\n  csp->fr.table_index = findex;", "  findex = func_entry->def.f_index;\n  csp->fr.table_index = index;", 1),
 # M6 rarely used path: loading a saved binary points line_info one short behind the file_info header
 "m6": lambda: rep("lib/lpc/program/binaries.c", "p->line_info = (unsigned char *) &p->file_info[p->file_info[1]];", "p->line_info = (unsigned char *) &p->file_info[p->file_info[1] - 1];"),
 # M7 the initialiser noting compares with the counter of the other block (copy/paste)
 "m7": lambda: rep("lib/lpc/program/icode.c", "if (line != init_line_being_generated)", "if (line != line_being_generated)"),
 # M8 error path that skips a reset: dump_trace's FRAME_CATCH case no longer resets num_arg (stale arguments printed)
 "m8": lambda: rep("src/simulate.c", "get_line_number (p[1].pc, p[1].prog), p[1].prog->name, p[1].ob->name);\n          num_arg = -1;\n          break;\n        }", "get_line_number (p[1].pc, p[1].prog), p[1].prog->name, p[1].ob->name);\n          break;\n        }"),
 # M9 dump_trace takes the object of an outer frame from the element itself instead of the next one
 "m9": lambda: rep("src/simulate.c", "log_message (NULL, \"\\t\" YEL \"%s()\" NOR \" at \" CYN \"%s\" NOR \", in program /%s (object %s)\\n\", ftd.name,\n                       get_line_number (p[1].pc, p[1].prog), p[1].prog->name, p[1].ob->name);", "log_message (NULL, \"\\t\" YEL \"%s()\" NOR \" at \" CYN \"%s\" NOR \", in program /%s (object %s)\\n\", ftd.name,\n                       get_line_number (p[1].pc, p[1].prog), p[1].prog->name, p[0].ob ? p[0].ob->name : p[1].ob->name);"),
 # M10 error path: the heart beat of the failing object is no longer switched off
 "m10": lambda: rep("src/error_context.c", "      set_heart_beat (current_heart_beat, 0);", "      /* set_heart_beat (current_heart_beat, 0); */"),
 # ---- round 2 ----
 # N1 helper with a narrower type: the noted offset of an initialiser line goes through an unsigned char
 "n1": lambda: rep("lib/lpc/program/icode.c", "il.offset = (int) CURRENT_PROGRAM_SIZE;", "il.offset = (unsigned char) CURRENT_PROGRAM_SIZE;"),
 # N2 statement moved behind the loop that modifies its operand: last_size_generated is advanced by the REST of sz
 "n2": lambda: rep("lib/lpc/program/icode.c", "      last_size_generated += sz;\n      while (sz > 255)", "      while (sz > 255)") or
               rep("lib/lpc/program/icode.c", "      *p++ = (unsigned char)sz;\n      STORE_SHORT (p, s);\n    }\n  line_being_generated = line;", "      *p++ = (unsigned char)sz;\n      STORE_SHORT (p, s);\n      last_size_generated += sz;\n    }\n  line_being_generated = line;"),
 # N3 condition/statement moved across another: the include push decrements current_line AFTER saving the parent's segment
 "n3": lambda: rep("lib/lpc/lex.c", "      current_line--;\n      save_file_info (current_file_id, current_line - current_line_saved);\n      current_line_base += current_line;", "      save_file_info (current_file_id, current_line - current_line_saved);\n      current_line--;\n      current_line_base += current_line;"),
 # N4 reset done on the success path only: last_size_generated is cleared when a program is finished, no longer when the parser starts
 "n4": lambda: (rep("lib/lpc/program/icode.c", "  last_size_generated = 0;\n  init_line_being_generated = 0;", "  init_line_being_generated = 0;"),
                rep("lib/lpc/program/icode.c", "      switch_to_line (-1);\t/* generate line numbers for the end */", "      switch_to_line (-1);\t/* generate line numbers for the end */\n      last_size_generated = 0;")),
 # N5 wrong but plausible variable: the error mapping names the program of the current OBJECT
 "n5": lambda: rep("src/error_context.c", 'add_mapping_string (m, "program", current_prog->name);', 'add_mapping_string (m, "program", current_object ? current_object->prog->name : current_prog->name);'),
 # N6 wrong but plausible variable: find_line takes the file name from the string table of the CURRENT program
 "n6": lambda: rep("src/simulate.c", "*ret_file = progp->strings[file_idx - 1];", "*ret_file = (current_prog ? current_prog : progp)->strings[file_idx - 1];"),
 # N7 the scan of program_file_id looks at the later half of the segments only
 "n7": lambda: rep("lib/lpc/compiler.c", "for (i = 1; i < n; i += 2)\n        {\n          if (fi[i] == (unsigned short) file_id)", "for (i = (n / 4) * 2 + 1; i < n; i += 2)\n        {\n          if (fi[i] == (unsigned short) file_id)"),
 # N8 stale cached value across a call: the block address is read before add_to_mem_block() may move the block
 "n8": lambda: (rep("lib/lpc/program/icode.c", "  size_t i, n = mem_block[A_INIT_LINES].current_size / sizeof (init_line_t);\n", "  size_t i, n = mem_block[A_INIT_LINES].current_size / sizeof (init_line_t);\n  char *program_block = mem_block[A_PROGRAM].block;\n"),
                rep("lib/lpc/program/icode.c", "prog_code = mem_block[A_PROGRAM].block + base + il->offset;", "prog_code = program_block + base + il->offset;")),
 # N9 cleanup skipped on a rare path: the include stack is not unwound when the lexer had given up (fatal lexer error)
 "n9": lambda: rep("lib/lpc/lex.c", "  while (inctop)\n    {\n      incstate_t *p;\n\n      p = inctop;\n      close (yyin_desc);\n      opt_trace (TT_COMPILE|3, \"closed fd = %d (%s)\\n\"", "  while (inctop && !lex_fatal)\n    {\n      incstate_t *p;\n\n      p = inctop;\n      close (yyin_desc);\n      opt_trace (TT_COMPILE|3, \"closed fd = %d (%s)\\n\""),
 # N10 i_generate_node compares with the counter of the function-code block only (the distinction of the initialiser block lost)
 "n10": lambda: rep("lib/lpc/program/icode.c", "expr->line != (current_block == A_INITIALIZER ? init_line_being_generated : line_being_generated))", "expr->line != line_being_generated)"),
 # S1 = seeded change C18-1 ported to the code after fix F1: the initialiser branch of switch_to_line no longer returns
 # early; no run is emitted there (sz = 0) but line_being_generated is updated, so pending function code is
 # attributed to the initialiser's line
 "s1": lambda: (rep("lib/lpc/program/icode.c", "  ptrdiff_t sz = CURRENT_PROGRAM_SIZE - last_size_generated;\n  short s;", "  ptrdiff_t sz = 0;\n  short s;"),
                rep("lib/lpc/program/icode.c", "          init_line_being_generated = line;\n        }\n      return;\n    }\n  if (current_block != A_PROGRAM)\n    return;\n", "          init_line_being_generated = line;\n        }\n    }\n  if (current_block == A_PROGRAM)\n    sz = CURRENT_PROGRAM_SIZE - last_size_generated;\n")),
 # ---- round 3 ----
 # P1 wrong but plausible variable: call_stack(2) looks the function up in the program saved in the element itself
 "p1": lambda: rep("lib/efuns/debug.c", "program_t *prog = (i ? (csp - i + 1)->prog : current_prog);", "program_t *prog = (i ? (csp - i)->prog : current_prog);"),
 # P2 off by one frame: call_stack(1) takes the objects from the element below
 "p2": lambda: rep("lib/efuns/debug.c", "ret->item[i].u.ob = (csp - i + 1)->ob;\n          add_ref ((csp - i + 1)->ob, \"f_call_stack\");", "ret->item[i].u.ob = (csp - i)->ob ? (csp - i)->ob : (csp - i + 1)->ob;\n          add_ref (ret->item[i].u.ob, \"f_call_stack\");"),
 # P3 wrong index kind: the __INIT frame stores the runtime index of the function
 "p3": lambda: rep("lib/lpc/object.c", "csp->fr.table_index = num_functions - 1;", "csp->fr.table_index = cfp->runtime_index;"),
 # P4 wrong but plausible operand: the second pass compares the COUNT of an earlier segment with the file id
 "p4": lambda: rep("lib/lpc/program.c", "if (p2[1] == file)", "if (p2[0] == file)"),
}
M[sys.argv[1]]()
print("applied", sys.argv[1])
